package main

// anacrolix/torrent/bencode is a reflection-driven third-party codec that the engine does not
// interpret. Marshal is provided natively for the value shapes the harnesses use (byte strings and
// strings of concrete length with arbitrary content: "<len>:<bytes>"); every other shape aborts the
// path as unsupported (reported inconclusive, never as success).

import (
	"fmt"
	"os"
	"crypto/ed25519"
	"go/types"
	"strconv"

	"golang.org/x/tools/go/ssa"
)

func (e *Exec) bencodeMarshal(v Value) []*Term {
	it, ok := v.(Iface)
	if !ok || it.t == nil {
		panic(e.unsupported("bencode.Marshal of nil / non-interface"))
	}
	var content []*Term
	switch u := it.t.Underlying().(type) {
	case *types.Basic:
		if u.Info()&types.IsString == 0 {
			panic(e.unsupported("bencode.Marshal of %v", it.t))
		}
		content = e.strBytes(it.v.(Str))
	case *types.Slice:
		if b, ok := u.Elem().Underlying().(*types.Basic); !ok || b.Kind() != types.Uint8 {
			panic(e.unsupported("bencode.Marshal of %v", it.t))
		}
		content = e.byteTerms(it.v.(Slice))
	default:
		panic(e.unsupported("bencode.Marshal of %v", it.t))
	}
	e.stubUsed("bencode.Marshal: native for byte strings only (<len>:<bytes>)")
	var out []*Term
	for _, c := range []byte(strconv.Itoa(len(content)) + ":") {
		out = append(out, e.tt.BV(8, uint64(c)))
	}
	return append(out, content...)
}

func init() {
	// ed25519.Verify: concrete arguments use the real function; otherwise an uninterpreted *function* of
	// (key, message, signature) - the same triple always verifies the same way, different triples are
	// unrelated (no algebraic facts about signatures are assumed).
	reg("crypto/ed25519.Verify", func(e *Exec, c *frame, fn *ssa.Function, a []Value) Value {
		k, m, sg := e.byteTerms(a[0].(Slice)), e.byteTerms(a[1].(Slice)), e.byteTerms(a[2].(Slice))
		if len(k) != 32 {
			panic(e.goPanic("ed25519: bad public key length: " + strconv.Itoa(len(k))))
		}
		if len(sg) != 64 {
			return e.tt.False
		}
		all := append(append(append([]*Term{}, k...), m...), sg...)
		if allConst(all) {
			raw := func(ts []*Term) []byte {
				b := make([]byte, len(ts))
				for i, t := range ts {
					b[i] = byte(t.c)
				}
				return b
			}
			return e.tt.Bool(ed25519.Verify(raw(k), raw(m), raw(sg)))
		}
		e.stubUsed("crypto/ed25519.Verify: uninterpreted function of (key, message, signature)")
		if os.Getenv("VERIF_DBG") != "" {
			str := ""
			for _, t := range all {
				str += t.String() + " "
			}
			fmt.Fprintf(os.Stderr, "DBG ed25519.Verify at %s: %s\n", e.frPos(c), str)
		}
		return e.tt.App("uf_ed25519_verify_len"+strconv.Itoa(len(m)), BoolSort, all...)
	})
}
