package main

// anacrolix/torrent/bencode is a reflection-driven third-party codec that the engine does not
// interpret. Marshal is provided natively for the value shapes the harnesses use (byte strings and
// strings of concrete length with arbitrary content: "<len>:<bytes>"); every other shape aborts the
// path as unsupported (reported inconclusive, never as success).

import (
	"go/types"
	"strconv"

	"golang.org/x/tools/go/ssa"
)

func (e *Exec) bencodeMarshal(v Value) []*Term {
	it, ok := v.(Iface)
	if !ok || it.t == nil {
		panic(e.unsupported("bencode.Marshal of nil / non-interface"))
	}
	var content []*Term
	switch u := it.t.Underlying().(type) {
	case *types.Basic:
		if u.Info()&types.IsString == 0 {
			panic(e.unsupported("bencode.Marshal of %v", it.t))
		}
		content = e.strBytes(it.v.(Str))
	case *types.Slice:
		if b, ok := u.Elem().Underlying().(*types.Basic); !ok || b.Kind() != types.Uint8 {
			panic(e.unsupported("bencode.Marshal of %v", it.t))
		}
		content = e.byteTerms(it.v.(Slice))
	default:
		panic(e.unsupported("bencode.Marshal of %v", it.t))
	}
	e.stubUsed("bencode.Marshal: native for byte strings only (<len>:<bytes>)")
	var out []*Term
	for _, c := range []byte(strconv.Itoa(len(content)) + ":") {
		out = append(out, e.tt.BV(8, uint64(c)))
	}
	return append(out, content...)
}

func init() {
	// ed25519.Verify: any outcome (over-approximation; signatures are not the subject where this is used)
	reg("crypto/ed25519.Verify", func(e *Exec, c *frame, fn *ssa.Function, a []Value) Value {
		e.stubUsed("crypto/ed25519.Verify: returns an arbitrary boolean (over-approximation)")
		return e.freshVar("sigok", 0)
	})
}
