package main

// The check driver: runs the harness entries of one property, decides the verdict, writes the evidence
// file and prints the VIOLATION / KNOWN-FINDING lines of the interface.

import (
	"encoding/json"
	"flag"
	"fmt"
	"os"
	"path/filepath"
	"regexp"
	"sort"
	"strings"
	"time"
)

type EntrySpec struct {
	Entry        string   `json:"entry"`
	Reach        []string `json:"reach"`
	Workers      int      `json:"workers"`
	TimeoutS     int      `json:"timeout_s"`
	MaxPaths     int      `json:"max_paths"`
	MaxSteps     int      `json:"max_steps"`
	SchedAll     bool     `json:"sched_all"`
	SchedYield   bool     `json:"sched_yield"`
	Preempt      int      `json:"preempt"`
	MapOrder     bool     `json:"map_order"`
	AllowBlocked bool     `json:"allow_blocked"`
	HashTransparent bool  `json:"hash_transparent"`
	MaxConc      int      `json:"max_concretize"`
	Bounds       string   `json:"bounds"`
	What         string   `json:"what"`
	MaxSchedPts  int      `json:"max_sched_points"`
	Conformance  bool     `json:"conformance"` // translator self-test on the repository's own test vectors: a failure is an engine fault
	HangSteps    int      `json:"hang_steps"` // exceeding this many interpreted instructions on one path is a "hang" violation
	Native       bool     `json:"native"` // counterexamples of this entry are replayed natively
}

type PkgSpec struct {
	Dir       string      `json:"dir"`
	Harness   []string    `json:"harness"`
	Summarize []string    `json:"summarize"`
	Quick     []EntrySpec `json:"quick"`
	Thorough  []EntrySpec `json:"thorough"`
	MustFail  []EntrySpec `json:"must_fail"`
	// native replay: harness files to leave out / to add when compiling natively
	NativeSkip  []string `json:"native_skip"`
	NativeExtra []string `json:"native_extra"`
}

type CheckSpec struct {
	ID          string    `json:"id"`
	Packages    []PkgSpec `json:"packages"`
	Assumptions []string  `json:"assumptions"`
	Outside     []string  `json:"outside_claim"`
	SSAFacts    []string  `json:"ssa_facts"`
}

type knownFinding struct {
	kind  string // finding | fixed
	prop  string
	entry string
	label string
	where string
	text  string
}

func loadKnownFindings(path string) []knownFinding {
	b, err := os.ReadFile(path)
	if err != nil {
		return nil
	}
	var out []knownFinding
	for _, line := range strings.Split(string(b), "\n") {
		line = strings.TrimSpace(line)
		if line == "" || strings.HasPrefix(line, "#") {
			continue
		}
		kf := knownFinding{}
		switch {
		case strings.HasPrefix(line, "finding:"):
			kf.kind = "finding"
			line = strings.TrimSpace(strings.TrimPrefix(line, "finding:"))
		case strings.HasPrefix(line, "fixed:"):
			kf.kind = "fixed"
			line = strings.TrimSpace(strings.TrimPrefix(line, "fixed:"))
		default:
			continue
		}
		desc := ""
		if i := strings.Index(line, "::"); i >= 0 {
			desc = strings.TrimSpace(line[i+2:])
			line = line[:i]
		}
		kf.text = desc
		re := regexp.MustCompile(`(\w+)=("([^"]*)"|\S+)`)
		for _, m := range re.FindAllStringSubmatch(line, -1) {
			v := m[2]
			if m[3] != "" || strings.HasPrefix(v, "\"") {
				v = m[3]
			}
			switch m[1] {
			case "property":
				kf.prop = v
			case "entry":
				kf.entry = v
			case "label":
				kf.label = v
			case "where":
				kf.where = v
			}
		}
		out = append(out, kf)
	}
	return out
}

func (kf knownFinding) matches(prop string, v *Violation) bool {
	if kf.kind != "finding" || kf.prop != prop {
		return false
	}
	if kf.entry != "" && kf.entry != "*" && kf.entry != v.Entry {
		return false
	}
	if kf.label != "" && !strings.Contains(v.Label, kf.label) {
		return false
	}
	if kf.where != "" && !strings.Contains(v.Where, kf.where) {
		return false
	}
	return true
}

const rtTemplate = `package PKGNAME

func verifNondetBool() bool
func verifNondetU8() uint8
func verifNondetU16() uint16
func verifNondetU32() uint32
func verifNondetU64() uint64
func verifNondetI64() int64
func verifNondetInt() int
func verifFill(b []byte)
func verifSymString(n int) string
func verifChoice(lo, hi int) int
func verifAssume(c bool)
func verifAssert(c bool, label string)
func verifReach(tag string)
func verifYield()
func verifObserve(key string, v any)
func verifFail(label string)
func verifDaemon()
func verifDormant()
func verifNumGoroutinesBlocked() int
func verifEncode(v any, n int) []byte
func verifEncodeWithout(v any, n int, keys string) []byte
func verifEventCount(kind string) int
func verifEvent(kind string)
func verifQuiesce()
func verifStopPath()
func verifMapOrders(all bool)
func verifFreezeClock(on bool)
func verifLimiterAlwaysGrants()
func verifFireTimers() int
func verifArmedTimers() int
`

func pkgNameOf(src []byte) string {
	re := regexp.MustCompile(`(?m)^package\s+(\w+)`)
	m := re.FindSubmatch(src)
	if m == nil {
		return "main"
	}
	return string(m[1])
}

type entryEvidence struct {
	Entry      string   `json:"entry"`
	What       string   `json:"what,omitempty"`
	Bounds     string   `json:"bounds,omitempty"`
	Paths      int      `json:"paths"`
	Completed  int      `json:"completed"`
	Aborted    any      `json:"aborted,omitempty"`
	Decisions  int      `json:"decisions"`
	Steps      int      `json:"ssa_instructions_executed"`
	Asserts    int      `json:"assertions_checked"`
	Discharged int      `json:"assertions_discharged"`
	Queries    int      `json:"solver_queries"`
	SolverS    float64  `json:"solver_time_s"`
	WallS      float64  `json:"wall_s"`
	Reached    []string `json:"reach_tags"`
	Incomplete string   `json:"incomplete,omitempty"`
	Violations int      `json:"violations"`
	MustFail   bool     `json:"must_fail_twin,omitempty"`
	Summaries  int      `json:"pure_call_summaries,omitempty"`
	Goroutines int      `json:"max_goroutines,omitempty"`
	SchedPts   int      `json:"scheduling_points,omitempty"`
}

func cmdCheck(args []string) {
	fs := flag.NewFlagSet("check", flag.ExitOnError)
	specPath := fs.String("spec", "", "check spec (json)")
	tier := fs.String("tier", "quick", "quick|thorough")
	repo := fs.String("repo", "/repo", "repository root")
	verifDir := fs.String("verif", "/verif", "verif root")
	evidencePath := fs.String("evidence", "", "evidence file to write")
	workers := fs.Int("workers", 12, "default workers")
	only := fs.String("only", "", "run only this entry (debug)")
	fs.Parse(args)
	start := time.Now()
	b, err := os.ReadFile(*specPath)
	if err != nil {
		fmt.Println("cannot read spec:", err)
		os.Exit(2)
	}
	var spec CheckSpec
	if err := json.Unmarshal(b, &spec); err != nil {
		fmt.Println("bad spec:", err)
		os.Exit(2)
	}
	seed := 0
	fmt.Sscan(os.Getenv("VERIF_SEED"), &seed)
	known := loadKnownFindings(filepath.Join(*verifDir, "known_findings.txt"))

	var entries []entryEvidence
	var samples []any
	var allViolations []Violation
	entryPkg := map[string]PkgSpec{}
	entryNative := map[string]bool{}
	nativeRun, nativeOK := 0, 0
	conformanceRun, conformanceOK := 0, 0
	crossChecked, crossDisagree := 0, 0
	var nativeNotes []string
	var inconclusive []string
	funcs := map[string]int{}
	stubs := map[string]bool{}
	intr := map[string]int{}
	totalPaths, totalDecisions, totalQueries, totalAsserts, totalDischarged, replayed := 0, 0, 0, 0, 0, 0
	solverTime := 0.0
	mustFailOK, mustFailN := 0, 0

	for _, ps := range spec.Packages {
		overlay := map[string][]byte{}
		pkgName := ""
		for _, h := range ps.Harness {
			src, err := os.ReadFile(filepath.Join(*verifDir, "harness", h))
			if err != nil {
				fmt.Println("cannot read harness:", err)
				os.Exit(2)
			}
			overlay[filepath.Base(h)] = src
			pkgName = pkgNameOf(src)
		}
		overlay["zz_verif_rt.go"] = []byte(strings.Replace(rtTemplate, "PKGNAME", pkgName, 1))
		prog, err := LoadOverlay(*repo, ps.Dir, overlay)
		if err != nil {
			msg := fmt.Sprintf("harness for %s does not load against the current tree: %v", ps.Dir, err)
			fmt.Println("INCONCLUSIVE", msg)
			inconclusive = append(inconclusive, msg)
			continue
		}
		for _, s := range ps.Summarize {
			prog.summarize[s] = true
		}
		for _, s := range defaultSummaries {
			prog.summarize[s] = true
		}
		list := ps.Quick
		if *tier == "thorough" {
			list = append(append([]EntrySpec{}, ps.Quick...), ps.Thorough...)
			// a thorough entry with the same name as a quick one replaces it
			seen := map[string]int{}
			var dedup []EntrySpec
			for _, es := range list {
				if i, ok := seen[es.Entry]; ok {
					dedup[i] = es
					continue
				}
				seen[es.Entry] = len(dedup)
				dedup = append(dedup, es)
			}
			list = dedup
		}
		type job struct {
			es       EntrySpec
			mustFail bool
		}
		var jobs []job
		for _, es := range list {
			jobs = append(jobs, job{es, false})
		}
		for _, es := range ps.MustFail {
			jobs = append(jobs, job{es, true})
		}
		for _, j := range jobs {
			es := j.es
			if *only != "" && es.Entry != *only {
				continue
			}
			entryPkg[es.Entry] = ps
			entryNative[es.Entry] = es.Native
			if prog.entryFunc(es.Entry) == nil {
				msg := "entry function missing: " + es.Entry
				fmt.Println("INCONCLUSIVE", msg)
				inconclusive = append(inconclusive, msg)
				continue
			}
			cfg := &RunConfig{Entry: es.Entry, MaxSteps: 4000000, Workers: *workers, TimeoutS: 240, SolverMs: 10000,
				MapOrderMax: 3, MaxConcretize: 64}
			if es.Workers > 0 {
				cfg.Workers = es.Workers
			}
			if es.TimeoutS > 0 {
				cfg.TimeoutS = es.TimeoutS
			}
			if es.MaxSteps > 0 {
				cfg.MaxSteps = es.MaxSteps
			}
			if es.MaxConc > 0 {
				cfg.MaxConcretize = es.MaxConc
			}
			cfg.MaxPaths = es.MaxPaths
			cfg.SchedAll = es.SchedAll
			cfg.SchedYield = es.SchedYield
			cfg.Preempt = es.Preempt
			cfg.MapOrderAll = es.MapOrder
			cfg.AllowBlocked = es.AllowBlocked
			cfg.HashTransparent = es.HashTransparent
			cfg.CrossCheck = *tier == "thorough" || os.Getenv("VERIF_CROSS") != ""
			cfg.MaxSchedPoints = es.MaxSchedPts
			if es.HangSteps > 0 {
				cfg.MaxSteps = es.HangSteps
				cfg.HangIsViolation = true
			}
			if j.mustFail {
				cfg.StopOnViolation = true
			}
			res := Explore(prog, cfg)
			ev := entryEvidence{Entry: es.Entry, What: es.What, Bounds: es.Bounds, Paths: res.Paths, Completed: res.Completed,
				Decisions: res.Decisions, Steps: res.Steps, Asserts: res.AssertsChk, Discharged: res.AssertsOK, Queries: res.Queries,
				SolverS: res.SolverTime.Seconds(), WallS: res.Wall.Seconds(), Incomplete: res.Incomplete, Violations: len(res.Violations),
				MustFail: j.mustFail, Summaries: res.SummariesOK, Goroutines: res.MaxGoroutines, SchedPts: res.SchedPoints}
			if len(res.Aborted) > 0 {
				ev.Aborted = res.Aborted
			}
			for t := range res.Reached {
				ev.Reached = append(ev.Reached, t)
			}
			sort.Strings(ev.Reached)
			entries = append(entries, ev)
			for k, v := range res.Funcs {
				funcs[k] += v
			}
			for k, v := range res.Intrinsics {
				intr[k] += v
			}
			totalPaths += res.Completed
			totalDecisions += res.Decisions
			totalQueries += res.Queries
			totalAsserts += res.AssertsChk
			totalDischarged += res.AssertsOK
			solverTime += res.SolverTime.Seconds()
			fmt.Printf("  %-34s paths=%d asserts=%d/%d queries=%d wall=%.1fs%s\n", es.Entry, res.Paths, res.AssertsOK, res.AssertsChk, res.Queries, res.Wall.Seconds(),
				map[bool]string{true: "  [must-fail twin]", false: ""}[j.mustFail])
			if j.mustFail {
				mustFailN++
				if len(res.Violations) > 0 {
					mustFailOK++
					if es.Native {
						// the twin's counterexample doubles as the end-to-end test of the replay pipeline
						tv := res.Violations[0]
						nr := nativeReplay(*repo, *verifDir, ps, &tv, filepath.Join(*verifDir, "replays", spec.ID+"-twin-"+es.Entry))
						nativeRun++
						if nr.Reproduced {
							nativeOK++
						}
						nativeNotes = append(nativeNotes, fmt.Sprintf("%s (must-fail twin): %s", es.Entry, nr.Outcome))
						fmt.Printf("    native replay of the twin's counterexample: %s\n", nr.Outcome)
					}
				} else {
					msg := "must-fail twin " + es.Entry + " did not fail: the harness or the engine is vacuous"
					fmt.Println("INCONCLUSIVE", msg)
					inconclusive = append(inconclusive, msg)
				}
				continue
			}
			for _, tag := range es.Reach {
				if res.Reached[tag] == 0 {
					msg := fmt.Sprintf("%s: reach tag %q not reached on any path (vacuity guard)", es.Entry, tag)
					fmt.Println("INCONCLUSIVE", msg)
					inconclusive = append(inconclusive, msg)
				}
			}
			if res.Incomplete != "" {
				msg := fmt.Sprintf("%s: exploration incomplete (%s): the stated bound is NOT claimed for this entry", es.Entry, res.Incomplete)
				fmt.Println("INCONCLUSIVE", msg)
				inconclusive = append(inconclusive, msg)
			}
			for k, n := range res.Aborted {
				msg := fmt.Sprintf("%s: %d path(s) %s", es.Entry, n, k)
				if len(res.AbortSamples) > 0 {
					msg += " e.g. " + res.AbortSamples[0]
				}
				fmt.Println("INCONCLUSIVE", msg)
				inconclusive = append(inconclusive, msg)
			}
			if res.Unknowns > 0 {
				inconclusive = append(inconclusive, fmt.Sprintf("%s: %d solver answers unknown", es.Entry, res.Unknowns))
			}
			for i := range res.Samples {
				if len(samples) < 6 {
					s := res.Samples[i]
					samples = append(samples, map[string]any{"entry": es.Entry, "decision_vector": s.Decisions, "verdict": s.Verdict,
						"path_condition_conjuncts": s.PCLen, "ssa_instructions": s.Steps, "assertions_discharged": s.AssertsOK, "reach": s.Reached})
				}
			}
			if es.Conformance {
				conformanceRun++
				if len(res.Violations) > 0 {
					msg := fmt.Sprintf("engine self-test failed: %s does not reproduce the repository's own test vectors (%s) - no verdict of this run should be trusted", es.Entry, res.Violations[0].Label)
					fmt.Println("INCONCLUSIVE", msg)
					inconclusive = append(inconclusive, msg)
				} else {
					conformanceOK++
				}
				continue
			}
			allViolations = append(allViolations, res.Violations...)
		}
		prog.mu.Lock()
		crossChecked += prog.crossChecked
		crossDisagree += prog.crossDisagree
		for _, m := range prog.inconclusive {
			if strings.HasPrefix(m, "solver disagreement") {
				inconclusive = append(inconclusive, m)
			}
		}
		for s := range prog.stubsUsed {
			stubs[s] = true
		}
		prog.mu.Unlock()
	}

	// verdict
	exit := 0
	reported := map[string]bool{}
	nViol := 0
	os.MkdirAll(filepath.Join(*verifDir, "replays"), 0o755)
	for i := range allViolations {
		v := &allViolations[i]
		key := v.Entry + "|" + v.Kind + "|" + v.Label
		if reported[key] {
			continue
		}
		reported[key] = true
		matched := false
		for _, kf := range known {
			if kf.matches(spec.ID, v) {
				fmt.Printf("KNOWN-FINDING: property=%s %s\n", spec.ID, kf.text)
				matched = true
				break
			}
		}
		if matched {
			continue
		}
		nViol++
		dir := filepath.Join(*verifDir, "replays", fmt.Sprintf("%s-%s-%d", spec.ID, v.Entry, nViol))
		os.MkdirAll(dir, 0o755)
		var nrp *nativeResult
		if entryNative[v.Entry] {
			nr := nativeReplay(*repo, *verifDir, entryPkg[v.Entry], v, filepath.Join(dir, "native"))
			nrp = &nr
			nativeRun++
			if nr.Reproduced {
				nativeOK++
				v.Confirmed = "native"
			}
			nativeNotes = append(nativeNotes, fmt.Sprintf("%s: %s", v.Entry, nr.Outcome))
		}
		vb, _ := json.MarshalIndent(map[string]any{"property": spec.ID, "spec": *specPath, "tier": *tier, "violation": v, "native_replay": nrp}, "", " ")
		rp := filepath.Join(dir, "counterexample.json")
		os.WriteFile(rp, vb, 0o644)
		_ = replayed
		fmt.Printf("  counterexample: entry=%s kind=%s label=%q where=%s\n", v.Entry, v.Kind, v.Label, v.Where)
		if len(v.Inputs) > 0 && len(v.Inputs) <= 64 {
			var parts []string
			for _, in := range v.Inputs {
				parts = append(parts, fmt.Sprintf("%s=%#x", in.Name, in.Value))
			}
			fmt.Println("    inputs:", strings.Join(parts, " "))
		}
		if nrp != nil {
			fmt.Printf("    native replay (go test against the real build): %s\n", nrp.Outcome)
		}
		fmt.Printf("VIOLATION property=%s replay=%s\n", spec.ID, rp)
		exit = 1
	}

	// evidence
	type fnCount struct {
		Name  string `json:"name"`
		Calls int    `json:"calls"`
	}
	var fl []fnCount
	for k, v := range funcs {
		if strings.Contains(k, "anacrolix/dht") {
			fl = append(fl, fnCount{k, v})
		}
	}
	sort.Slice(fl, func(i, j int) bool { return fl[i].Name < fl[j].Name })
	var stubList []string
	for s := range stubs {
		stubList = append(stubList, s)
	}
	for k := range intr {
		stubList = append(stubList, "intrinsic: "+k)
	}
	sort.Strings(stubList)
	if len(samples) == 0 {
		samples = append(samples, map[string]any{"note": "no path completed"})
	}
	states := totalPaths
	if states < 1 {
		states = 1
	}
	trans := totalDecisions
	if trans < 1 {
		trans = 1
	}
	cov := map[string]any{
		"states":                        states,
		"transitions":                   trans,
		"traces_validated_against_impl": nativeOK, // counterexamples (incl. the must-fail twin's) reproduced by `go test` against the real build
		"native_replays_run":            nativeRun,
		"cross_solver":                  fmt.Sprintf("%d assertion discharges re-asked of z3 4.8.12, %d disagreements", crossChecked, crossDisagree),
		"conformance_entries":           fmt.Sprintf("%d/%d reproduce the repository's own test vectors inside the engine", conformanceOK, conformanceRun),
		"native_replay_notes":           nativeNotes,
		"samples":                       samples,
		"explanation": "bounded symbolic model checking of the real code: states = completed symbolic paths (each covers all input values satisfying its path condition), " +
			"transitions = decisions taken (branches, concretisations, scheduling choices); every assertion on every path is decided by an SMT query (unsat = holds for all values on that path)",
		"entries":               entries,
		"functions_encoded":     fl,
		"assertions_checked":    totalAsserts,
		"assertions_discharged": totalDischarged,
		"solver_queries":        totalQueries,
		"solver_time_s":         solverTime,
		"solvers":               mainZ3() + " (z3-new = z3 5.1.0, z3 = 4.8.12) over a pipe, incremental; cvc5 --solve-bv-as-int=sum for division kernels; unknown answers retried on cvc5 and on the other z3; the thorough tier re-asks assertion discharges of the other z3 (cross_solver)",
		"stubs_used":            stubList,
		"inconclusive":          inconclusive,
		"must_fail_twins":       fmt.Sprintf("%d/%d failed as required", mustFailOK, mustFailN),
		"outside_claim":         spec.Outside,
		"exhaustive":            len(inconclusive) == 0,
	}
	evd := map[string]any{
		"property_id": spec.ID,
		"tier":        *tier,
		"seed":        seed,
		"level":       "model_checking",
		"coverage":    cov,
		"assumptions": spec.Assumptions,
		"wall_s":      time.Since(start).Seconds(),
		"violations":  nViol,
	}
	if *evidencePath != "" {
		os.MkdirAll(filepath.Dir(*evidencePath), 0o755)
		eb, _ := json.MarshalIndent(evd, "", " ")
		os.WriteFile(*evidencePath, eb, 0o644)
	}
	if exit == 0 {
		if len(inconclusive) > 0 {
			fmt.Printf("OK property=%s (with %d inconclusive item(s): see evidence) paths=%d assertions=%d/%d\n", spec.ID, len(inconclusive), totalPaths, totalDischarged, totalAsserts)
		} else {
			fmt.Printf("OK property=%s paths=%d assertions=%d/%d queries=%d\n", spec.ID, totalPaths, totalDischarged, totalAsserts, totalQueries)
		}
	}
	os.Exit(exit)
}

func cmdSSAFacts(args []string) {}

// cmdReplay re-executes the recorded decision path of a counterexample against the *current* /repo
// tree (fresh go/ssa, same harness) and reports whether the same violation is reached again.
func cmdReplay(args []string) {
	fs := flag.NewFlagSet("replay", flag.ExitOnError)
	specPath := fs.String("spec", "", "check spec (json)")
	cexPath := fs.String("cex", "", "counterexample.json written by check")
	repo := fs.String("repo", "/repo", "repository root")
	verifDir := fs.String("verif", "/verif", "verif root")
	fs.Parse(args)
	var spec CheckSpec
	b, err := os.ReadFile(*specPath)
	if err != nil || json.Unmarshal(b, &spec) != nil {
		fmt.Println("cannot read spec")
		os.Exit(2)
	}
	var cex struct {
		Violation Violation `json:"violation"`
	}
	b, err = os.ReadFile(*cexPath)
	if err != nil || json.Unmarshal(b, &cex) != nil {
		fmt.Println("cannot read counterexample")
		os.Exit(2)
	}
	v := cex.Violation
	for _, ps := range spec.Packages {
		var found *EntrySpec
		for _, l := range [][]EntrySpec{ps.Quick, ps.Thorough, ps.MustFail} {
			for i := range l {
				if l[i].Entry == v.Entry {
					found = &l[i]
				}
			}
		}
		if found == nil {
			continue
		}
		overlay := map[string][]byte{}
		pkgName := ""
		for _, h := range ps.Harness {
			src, err := os.ReadFile(filepath.Join(*verifDir, "harness", h))
			if err != nil {
				fmt.Println("cannot read harness:", err)
				os.Exit(2)
			}
			overlay[filepath.Base(h)] = src
			pkgName = pkgNameOf(src)
		}
		overlay["zz_verif_rt.go"] = []byte(strings.Replace(rtTemplate, "PKGNAME", pkgName, 1))
		prog, err := LoadOverlay(*repo, ps.Dir, overlay)
		if err != nil {
			fmt.Println("INCONCLUSIVE harness does not load:", err)
			os.Exit(0)
		}
		for _, s := range append(append([]string{}, ps.Summarize...), defaultSummaries...) {
			prog.summarize[s] = true
		}
		cfg := &RunConfig{Entry: v.Entry, MaxSteps: 4000000, Workers: 1, TimeoutS: 300, SolverMs: 10000, MapOrderMax: 3, MaxConcretize: 64,
			Prefix: v.Decisions, MaxPaths: 1, StopOnViolation: true, SchedAll: found.SchedAll, SchedYield: found.SchedYield, Preempt: found.Preempt,
			MapOrderAll: found.MapOrder, AllowBlocked: found.AllowBlocked, HashTransparent: found.HashTransparent}
		res := Explore(prog, cfg)
		for _, nv := range res.Violations {
			if nv.Kind == v.Kind && nv.Label == v.Label {
				fmt.Printf("reproduced on the current tree: entry=%s kind=%s label=%q where=%s\n", nv.Entry, nv.Kind, nv.Label, nv.Where)
				for _, in := range nv.Inputs {
					fmt.Printf("  %s=%#x\n", in.Name, in.Value)
				}
				fmt.Printf("VIOLATION property=%s replay=%s\n", spec.ID, *cexPath)
				os.Exit(1)
			}
		}
		fmt.Printf("NOT REPRODUCED on the current tree (entry=%s, recorded path of %d decisions re-executed; %d other violation(s) on that path)\n", v.Entry, len(v.Decisions), len(res.Violations))
		os.Exit(0)
	}
	fmt.Println("entry", v.Entry, "not in spec")
	os.Exit(2)
}
