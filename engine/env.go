package main

// Environment for the server-level harnesses: bencode snapshot stubs, x/time/rate limiter stub,
// context (native cancel tree), sync/atomic, time.After timers, event log and quiescence.
// Every stub here is part of each claim that uses it (listed in the evidence under stubs_used).

import (
	"fmt"
	"go/types"
	"reflect"
	"strings"

	"golang.org/x/tools/go/ssa"
)

// ---- deep copies (snapshots of Go values carried by an encoded byte buffer) ----

type copyMemo map[*Object]*Object

func (e *Exec) deepCopy(v Value, memo copyMemo) Value {
	switch x := v.(type) {
	case *Agg:
		if x == nil {
			return x
		}
		n := &Agg{elems: make([]Value, len(x.elems))}
		for i, el := range x.elems {
			n.elems[i] = e.deepCopy(el, memo)
		}
		return n
	case Tuple:
		n := make(Tuple, len(x))
		for i, el := range x {
			n[i] = e.deepCopy(el, memo)
		}
		return n
	case Ptr:
		if x.IsNil() {
			return x
		}
		return Ptr{obj: e.deepCopyObj(x.obj, memo), path: x.path}
	case Slice:
		if x.IsNil() {
			return x
		}
		return Slice{obj: e.deepCopyObj(x.obj, memo), path: x.path, off: x.off, len: x.len, cap: x.cap}
	case Iface:
		if x.t == nil {
			return x
		}
		return Iface{t: x.t, v: e.deepCopy(x.v, memo)}
	case *Map:
		if x == nil {
			return x
		}
		m := e.newMap(x.keyT)
		for i := range x.keys {
			m.keys = append(m.keys, e.deepCopy(x.keys[i], memo))
			m.vals = append(m.vals, e.deepCopy(x.vals[i], memo))
		}
		return m
	}
	return v
}

func (e *Exec) deepCopyObj(o *Object, memo copyMemo) *Object {
	if n, ok := memo[o]; ok {
		return n
	}
	n := e.newObject(o.typ, nil, o.label)
	memo[o] = n
	n.v = e.deepCopy(o.v, memo)
	n.snapshot, n.snapType, n.snapOff, n.snapLen = o.snapshot, o.snapType, o.snapOff, o.snapLen
	n.snapAbsent = o.snapAbsent
	return n
}

// ---- bencode: struct values travel as snapshots attached to an opaque byte buffer ----

const bencodePkg = "github.com/anacrolix/torrent/bencode"

func (e *Exec) namedType(pkgPath, name string) types.Type {
	sp := e.prog.byPath[pkgPath]
	if sp == nil {
		panic(e.unsupported("package %s not loaded", pkgPath))
	}
	m := sp.Type(name)
	if m == nil {
		panic(e.unsupported("type %s.%s not found", pkgPath, name))
	}
	return m.Type()
}

func isByteSlice(t types.Type) bool {
	s, ok := t.Underlying().(*types.Slice)
	if !ok {
		return false
	}
	b, ok := s.Elem().Underlying().(*types.Basic)
	return ok && b.Kind() == types.Uint8
}

// encodeSnapshot makes a byte buffer of n bytes that stands for the bencoding of v (dynamic type t):
// first byte by kind, the rest opaque symbolic bytes, the value itself attached as a deep snapshot.
func (e *Exec) encodeSnapshot(t types.Type, v Value, n int) Slice {
	if n < 2 {
		n = 2
	}
	first := byte('d')
	switch u := t.Underlying().(type) {
	case *types.Slice, *types.Array:
		first = 'l'
	case *types.Basic:
		if u.Info()&types.IsInteger != 0 {
			first = 'i'
		}
	}
	bs := make([]*Term, n)
	bs[0] = e.tt.BV(8, uint64(first))
	for i := 1; i < n; i++ {
		bs[i] = e.freshVar("benc8", 8)
	}
	s := e.bytesToSlice(bs)
	s.obj.snapshot = e.deepCopy(v, copyMemo{})
	s.obj.snapType = t
	s.obj.snapOff = 0
	s.obj.snapLen = n
	s.obj.label = "bencoded " + t.String()
	e.stubUsed("bencode.Marshal/Unmarshal of struct values: the value travels as a snapshot attached to an opaque byte buffer (byte layout of anacrolix/torrent/bencode not encoded)")
	return s
}

func (e *Exec) bencodeMarshalAny(v Value) Slice {
	it, ok := v.(Iface)
	if !ok || it.t == nil {
		// as the real encoder: a nil interface encodes to nothing, without an error
		return Slice{}
	}
	switch u := it.t.Underlying().(type) {
	case *types.Basic:
		if u.Info()&types.IsString != 0 {
			return e.bytesToSlice(e.bencodeMarshal(v))
		}
	case *types.Slice:
		if isByteSlice(it.t) {
			return e.bytesToSlice(e.bencodeMarshal(v))
		}
	}
	return e.encodeSnapshot(it.t, it.v, 12)
}

func (e *Exec) mkSyntaxError(off *Term) Value {
	st := e.namedType(bencodePkg, "SyntaxError")
	obj := e.newObject(st, &Agg{elems: []Value{off, e.hostErrSingleton("unexpected EOF")}}, "bencode.SyntaxError")
	return Iface{t: types.NewPointer(st), v: Ptr{obj: obj}}
}

// decodeInto: what a struct target holds after decoding a dictionary into it. As in the real decoder
// only the keys present in the dictionary are assigned: a field tagged omitempty whose decoded value
// is empty was not in the dictionary (the encoder that produced the snapshot left it out) and keeps
// whatever the target held before. Targets are fresh zero values everywhere in the unchanged code, so
// this only matters for code that reuses a decoded-into struct. Nested structs are replaced whole.
func (e *Exec) decodeInto(old, nu Value, t types.Type, absent []string) Value {
	st, ok := t.Underlying().(*types.Struct)
	oa, ok1 := old.(*Agg)
	na, ok2 := nu.(*Agg)
	if !ok || !ok1 || !ok2 || len(oa.elems) != len(na.elems) || st.NumFields() != len(na.elems) {
		return nu
	}
	for i := 0; i < st.NumFields(); i++ {
		tag := reflect.StructTag(st.Tag(i)).Get("bencode")
		isAbsent := false
		for _, k := range absent {
			if k != "" && k == strings.Split(tag, ",")[0] {
				isAbsent = true
			}
		}
		if isAbsent {
			// the datagram leaves this key out: the decoder does not touch the field
			na.elems[i] = oa.elems[i]
			continue
		}
		if !strings.Contains(tag, ",omitempty") {
			continue
		}
		switch v := na.elems[i].(type) {
		case Str:
			if v.Len() == 0 {
				na.elems[i] = oa.elems[i]
			}
		case Ptr:
			if v.IsNil() {
				na.elems[i] = oa.elems[i]
			}
		case Slice:
			if v.IsNil() || v.len == 0 {
				na.elems[i] = oa.elems[i]
			}
		case *Term:
			if ot, isT := oa.elems[i].(*Term); isT && v.sort == BoolSort {
				na.elems[i] = e.tt.Or(v, ot) // present iff true
			} else if v.IsConst() && v.c == 0 {
				na.elems[i] = oa.elems[i]
			}
		case *Agg:
			// a struct-valued field (krpc.Msg.IP): left out when it is the zero value; decided only
			// for concrete contents
			if e.aggIsZero(v) {
				na.elems[i] = oa.elems[i]
			}
		}
	}
	return na
}

func (e *Exec) aggIsZero(a *Agg) bool {
	for _, x := range a.elems {
		switch v := x.(type) {
		case *Term:
			if !v.IsConst() || v.c != 0 {
				return false
			}
		case Slice:
			if !v.IsNil() && v.len != 0 {
				return false
			}
		case Str:
			if v.Len() != 0 {
				return false
			}
		case Ptr:
			if !v.IsNil() {
				return false
			}
		case *Agg:
			if !e.aggIsZero(v) {
				return false
			}
		default:
			return false
		}
	}
	return true
}

// bencodeUnmarshal implements bencode.Unmarshal(data, target).
func (e *Exec) bencodeUnmarshal(data Slice, target Value) Value {
	ti, ok := target.(Iface)
	if !ok || ti.t == nil {
		return e.newHostError("bencode: Unmarshal(nil)")
	}
	pt, ok := ti.t.Underlying().(*types.Pointer)
	if !ok {
		return e.newHostError("bencode: Unmarshal(non-pointer)")
	}
	dst := ti.v.(Ptr)
	if dst.IsNil() {
		return e.newHostError("bencode: Unmarshal(nil pointer)")
	}
	var obj *Object
	if !data.IsNil() {
		obj = data.obj
	}
	if obj != nil && obj.snapshot != nil && data.off == obj.snapOff && len(data.path) == 0 {
		if data.len < obj.snapLen {
			return e.mkSyntaxError(e.intT(int64(data.len)))
		}
		switch {
		case types.Identical(pt.Elem(), obj.snapType):
			e.store(dst, e.decodeInto(e.load(dst), e.deepCopy(obj.snapshot, copyMemo{}), obj.snapType, obj.snapAbsent))
		case types.IsInterface(pt.Elem()) && pt.Elem().Underlying().(*types.Interface).NumMethods() == 0:
			e.store(dst, Iface{t: obj.snapType, v: e.deepCopy(obj.snapshot, copyMemo{})})
		default:
			return e.newHostError(fmt.Sprintf("bencode: cannot unmarshal a %v into %v", obj.snapType, pt.Elem()))
		}
		if data.len > obj.snapLen {
			et := e.namedType(bencodePkg, "ErrUnusedTrailingBytes")
			return Iface{t: et, v: &Agg{elems: []Value{e.intT(int64(data.len - obj.snapLen))}}}
		}
		return Iface{}
	}
	// no snapshot: a byte string "<len>:<bytes>" with concrete framing decodes natively into
	// interface{}, string and []byte targets; everything else is "bytes that do not decode"
	if !data.IsNil() && data.len > 0 {
		bs := e.byteTerms(data)
		i, n, okNum := 0, 0, false
		for i < len(bs) && bs[i].IsConst() && bs[i].c >= '0' && bs[i].c <= '9' && n < 1<<20 {
			n = n*10 + int(bs[i].c-'0')
			i++
			okNum = true
		}
		if okNum && i < len(bs) && bs[i].IsConst() && bs[i].c == ':' && i+1+n <= len(bs) {
			content := bs[i+1 : i+1+n]
			var stored bool
			switch {
			case types.IsInterface(pt.Elem()):
				e.store(dst, Iface{t: types.Typ[types.String], v: e.mkStr(content)})
				stored = true
			case isByteSlice(pt.Elem()):
				e.store(dst, e.bytesToSlice(content))
				stored = true
			default:
				if b, isB := pt.Elem().Underlying().(*types.Basic); isB && b.Info()&types.IsString != 0 {
					e.store(dst, e.mkStr(content))
					stored = true
				}
			}
			if stored {
				if rest := len(bs) - (i + 1 + n); rest > 0 {
					et := e.namedType(bencodePkg, "ErrUnusedTrailingBytes")
					return Iface{t: et, v: &Agg{elems: []Value{e.intT(int64(rest))}}}
				}
				return Iface{}
			}
		}
	}
	e.stubUsed("bencode.Unmarshal of bytes that carry no snapshot: fails, nondeterministically with a *SyntaxError at any offset 0..len or with another error (which byte strings decode to which value is not modelled)")
	if e.choose(2, "bencode error class") == 0 {
		off := e.freshVar("synoff", 64)
		e.addPC(e.tt.Cmp(OpSLe, e.intT(0), off))
		e.addPC(e.tt.Cmp(OpSLe, off, e.intT(int64(data.len))))
		return e.mkSyntaxError(off)
	}
	return e.newHostError("bencode: bytes do not decode")
}

func init() {
	reg(bencodePkg+".Marshal", func(e *Exec, c *frame, fn *ssa.Function, a []Value) Value {
		return Tuple{e.bencodeMarshalAny(a[0]), Iface{}}
	})
	reg(bencodePkg+".MustMarshal", func(e *Exec, c *frame, fn *ssa.Function, a []Value) Value {
		return e.bencodeMarshalAny(a[0])
	})
	reg(bencodePkg+".Unmarshal", func(e *Exec, c *frame, fn *ssa.Function, a []Value) Value {
		return e.bencodeUnmarshal(a[0].(Slice), a[1])
	})
	h := harnessIntrinsics
	// verifEncode(v any, n int) []byte : the n-byte datagram that decodes to v
	h["verifEncode"] = func(e *Exec, c *frame, fn *ssa.Function, a []Value) Value {
		it := a[0].(Iface)
		if it.t == nil {
			panic(e.unsupported("verifEncode(nil)"))
		}
		n := int(e.concreteInt(a[1].(*Term), "verifEncode length"))
		return e.encodeSnapshot(it.t, it.v, n)
	}
	// verifEncodeWithout(v any, n int, keys string) []byte : the n-byte datagram that decodes to v except
	// that the comma-separated top-level dictionary keys are left out of it
	h["verifEncodeWithout"] = func(e *Exec, c *frame, fn *ssa.Function, a []Value) Value {
		it := a[0].(Iface)
		if it.t == nil {
			panic(e.unsupported("verifEncodeWithout(nil)"))
		}
		n := int(e.concreteInt(a[1].(*Term), "verifEncodeWithout length"))
		s := e.encodeSnapshot(it.t, it.v, n)
		s.obj.snapAbsent = strings.Split(strArg(e, a[2]), ",")
		return s
	}
	// verifDecode<T>(b []byte) (T, bool): the value a buffer produced by bencode.Marshal stands for
	h["verifDecodeAny"] = func(e *Exec, c *frame, fn *ssa.Function, a []Value) Value {
		rt := fn.Signature.Results().At(0).Type()
		s := a[0].(Slice)
		if s.IsNil() || s.obj.snapshot == nil || !types.Identical(s.obj.snapType, rt) {
			return Tuple{e.zero(rt), e.tt.False}
		}
		return Tuple{e.deepCopy(s.obj.snapshot, copyMemo{}), e.tt.True}
	}
	h["verifEventCount"] = func(e *Exec, c *frame, fn *ssa.Function, a []Value) Value {
		return e.intT(int64(e.events()[strArg(e, a[0])]))
	}
	h["verifLimiterAlwaysGrants"] = func(e *Exec, c *frame, fn *ssa.Function, a []Value) Value {
		e.hostState["limiter.always"] = true
		e.stubUsed("limiter configured by the harness to always grant (send budget is not the subject of this entry)")
		return nil
	}
	// verifFreezeClock(true): no time passes from now on (every time.Now returns the same arbitrary reading)
	h["verifFreezeClock"] = func(e *Exec, c *frame, fn *ssa.Function, a []Value) Value {
		if on := a[0].(*Term); on.IsTrue() {
			e.hostState["clock.frozen"] = e.timeNow()
			e.stubUsed("clock frozen by the harness for part of the run (elapsed time between the events of that part is zero)")
		} else {
			delete(e.hostState, "clock.frozen")
		}
		return nil
	}
	// verifMapOrders(false): iterate maps in insertion order from here on (used around the harness's own
	// invariant walks, whose verdict does not depend on the order); true restores the entry's setting
	h["verifMapOrders"] = func(e *Exec, c *frame, fn *ssa.Function, a []Value) Value {
		if a[0].(*Term).IsTrue() {
			e.mapOrderAll = e.cfg.MapOrderAll
		} else {
			e.mapOrderAll = false
		}
		return nil
	}
	h["verifEvent"] = func(e *Exec, c *frame, fn *ssa.Function, a []Value) Value {
		e.event(strArg(e, a[0]))
		return nil
	}
	// verifFireTimers: time passes - every armed timer somebody waits for expires; returns how many did
	h["verifFireTimers"] = func(e *Exec, c *frame, fn *ssa.Function, a []Value) Value {
		ts := e.waitedTimers()
		for _, t := range ts {
			t.tstate = 1
		}
		return e.intT(int64(len(ts)))
	}
	h["verifArmedTimers"] = func(e *Exec, c *frame, fn *ssa.Function, a []Value) Value {
		return e.intT(int64(len(e.waitedTimers())))
	}
	// verifQuiesce: let every other goroutine run until none of them can continue
	h["verifQuiesce"] = func(e *Exec, c *frame, fn *ssa.Function, a []Value) Value {
		e.quiesce(e.curG(c))
		return nil
	}
}

// ---- event log ----

func (e *Exec) events() map[string]int {
	if m, ok := e.hostState["events"].(map[string]int); ok {
		return m
	}
	m := map[string]int{}
	e.hostState["events"] = m
	return m
}

func (e *Exec) event(kind string) { e.events()[kind]++ }

// ---- quiescence ----

func (e *Exec) quiesce(g *Goroutine) {
	if e.summaryDepth > 0 {
		panic(summaryAbort{"quiesce"})
	}
	s := e.sched
	othersIdle := func() bool {
		for _, x := range s.gs {
			if x == g {
				continue
			}
			switch x.status {
			case gRunnable:
				return false
			case gBlocked:
				if x.dormant {
					return false // released once nothing else can run
				}
				if x.quiescing {
					continue
				}
				if x.ready != nil && x.ready() {
					return false
				}
			}
		}
		return true
	}
	g.quiescing = true
	defer func() { g.quiescing = false }()
	e.blockUntil(g, "quiesce", othersIdle)
}

// ---- golang.org/x/time/rate: the limiter's arithmetic is floating point over time and is not encoded.
// Each acquisition returns an arbitrary outcome; grants, denials and returned tokens are logged so that
// harnesses can state the obligation "one granted token per rated write".

func init() {
	const lim = "(*golang.org/x/time/rate.Limiter)"
	note := "golang.org/x/time/rate.Limiter: Allow/Wait return an arbitrary outcome (token-bucket arithmetic not encoded); grants, denials and returned tokens are counted"
	reg(lim+".Allow", func(e *Exec, c *frame, fn *ssa.Function, a []Value) Value {
		e.stubUsed(note)
		if e.muPtrOK(a[0]); e.limiterGrants() || e.branch(e.freshVar("lim_allow", 0)) {
			e.event("limiter.grant")
			return e.tt.True
		}
		e.event("limiter.deny")
		return e.tt.False
	})
	reg(lim+".AllowN", func(e *Exec, c *frame, fn *ssa.Function, a []Value) Value {
		e.stubUsed(note)
		e.muPtrOK(a[0])
		n := a[2].(*Term)
		if n.IsConst() && n.ConstS() <= 0 {
			for i := int64(0); i < -n.ConstS(); i++ {
				e.event("limiter.return")
			}
			return e.tt.True
		}
		if e.branch(e.freshVar("lim_allow", 0)) {
			e.event("limiter.grant")
			return e.tt.True
		}
		e.event("limiter.deny")
		return e.tt.False
	})
	wait := func(e *Exec, c *frame, fn *ssa.Function, a []Value) Value {
		e.stubUsed(note)
		e.muPtrOK(a[0])
		e.event("limiter.wait")
		// a cancelled context always fails the wait
		if co := e.ctxOf(a[1]); co != nil && co.cancelled {
			e.event("limiter.waiterr")
			return co.err
		}
		if e.limiterGrants() || e.branch(e.freshVar("lim_wait_ok", 0)) {
			e.event("limiter.grant")
			return Iface{}
		}
		e.event("limiter.waiterr")
		return e.newHostError("rate: Wait(n=1) would exceed context deadline")
	}
	reg(lim+".Wait", wait)
	reg(lim+".WaitN", wait)
}

// limiterGrants: a harness whose subject is not the send budget may ask for a limiter that always grants.
func (e *Exec) limiterGrants() bool {
	b, _ := e.hostState["limiter.always"].(bool)
	return b
}

func (e *Exec) muPtrOK(v Value) bool {
	if p, ok := v.(Ptr); !ok || p.IsNil() {
		panic(e.goPanic("runtime error: invalid memory address or nil pointer dereference (nil *rate.Limiter)"))
	}
	return true
}

// ---- sync/atomic on plain integer cells ----

func init() {
	for _, ty := range []string{"Int32", "Int64", "Uint32", "Uint64", "Uintptr"} {
		reg("sync/atomic.Load"+ty, func(e *Exec, c *frame, fn *ssa.Function, a []Value) Value {
			return e.load(a[0].(Ptr))
		})
		reg("sync/atomic.Store"+ty, func(e *Exec, c *frame, fn *ssa.Function, a []Value) Value {
			e.store(a[0].(Ptr), a[1])
			return nil
		})
		reg("sync/atomic.Add"+ty, func(e *Exec, c *frame, fn *ssa.Function, a []Value) Value {
			p := a[0].(Ptr)
			nv := e.tt.Bin(OpAdd, e.load(p).(*Term), a[1].(*Term))
			e.store(p, nv)
			return nv
		})
		reg("sync/atomic.Swap"+ty, func(e *Exec, c *frame, fn *ssa.Function, a []Value) Value {
			p := a[0].(Ptr)
			old := e.load(p)
			e.store(p, a[1])
			return old
		})
		reg("sync/atomic.CompareAndSwap"+ty, func(e *Exec, c *frame, fn *ssa.Function, a []Value) Value {
			p := a[0].(Ptr)
			cur := e.load(p).(*Term)
			if e.branch(e.tt.Eq(cur, a[1].(*Term))) {
				e.store(p, a[2])
				return e.tt.True
			}
			return e.tt.False
		})
	}
}

// ---- context: a native cancel tree ----

type ctxObj struct {
	parent    *ctxObj
	done      *Chan // nil for Background/TODO
	cancelled bool
	err       Value
	children  []*ctxObj
	name      string
}

func (e *Exec) ctxIface(c *ctxObj) Value {
	return Iface{t: e.prog.hostCtxType, v: &Host{kind: "ctx", data: c}}
}

func (e *Exec) ctxOf(v Value) *ctxObj {
	it, ok := v.(Iface)
	if !ok || it.t == nil {
		return nil
	}
	h, ok := it.v.(*Host)
	if !ok {
		return nil
	}
	c, _ := h.data.(*ctxObj)
	return c
}

func (e *Exec) ctxCancel(c *ctxObj, err Value) {
	if c.cancelled {
		return
	}
	c.cancelled = true
	c.err = err
	if c.done != nil && !c.done.closed {
		e.closeCommit(c.done)
	}
	for _, ch := range c.children {
		e.ctxCancel(ch, err)
	}
}

func (e *Exec) ctxMethod(caller *frame, c *ctxObj, name string, args []Value) Value {
	switch name {
	case "Done":
		return c.done
	case "Err":
		if c.cancelled {
			return c.err
		}
		return Iface{}
	case "Value":
		return Iface{}
	case "Deadline":
		return Tuple{e.zero(e.namedType("time", "Time")), e.tt.False}
	}
	panic(e.unsupported("context method %s", name))
}

func init() {
	bg := func(e *Exec, c *frame, fn *ssa.Function, a []Value) Value {
		e.stubUsed("context: native cancel tree (Background/TODO/WithCancel, Done, Err); cancellation is a scheduling point")
		return e.ctxIface(&ctxObj{name: "background"})
	}
	reg("context.Background", bg)
	reg("context.TODO", bg)
	reg("context.WithCancel", func(e *Exec, c *frame, fn *ssa.Function, a []Value) Value {
		parent := e.ctxOf(a[0])
		if parent == nil {
			if it, ok := a[0].(Iface); ok && it.t == nil {
				panic(e.goPanic("cannot create context from nil parent"))
			}
			panic(e.unsupported("context.WithCancel on a foreign context implementation"))
		}
		ch := e.newChan(0, nil)
		ch.elemT = types.NewStruct(nil, nil)
		ch.label = "(ctx.Done)"
		child := &ctxObj{parent: parent, done: ch, name: "cancelCtx"}
		parent.children = append(parent.children, child)
		if parent.cancelled {
			e.ctxCancel(child, parent.err)
		}
		cancel := &nativeFunc{name: "context.CancelFunc", f: func(e *Exec, caller *frame, args []Value) Value {
			e.ctxCancel(child, e.load(Ptr{obj: e.globalObj(e.prog.byPath["context"].Var("Canceled"))}))
			e.schedPoint(e.curG(caller), "context cancel")
			return nil
		}}
		return Tuple{e.ctxIface(child), cancel}
	})
	reg("runtime/pprof.WithLabels", func(e *Exec, c *frame, fn *ssa.Function, a []Value) Value { return a[0] })
	reg("runtime/pprof.SetGoroutineLabels", func(e *Exec, c *frame, fn *ssa.Function, a []Value) Value { return nil })

	// time.After(d): abstract time. The channel may deliver at any later scheduling point; d == 0 is ready at once.
	reg("time.After", func(e *Exec, c *frame, fn *ssa.Function, a []Value) Value {
		e.stubUsed("time.After: abstract timer channel: zero delays expire at once; other timers expire when the harness lets time pass or when nothing else in the system can run")
		ch := e.newChan(1, nil)
		ch.elemT = e.namedType("time", "Time")
		ch.timer = true
		ch.label = "(timer)"
		if d := a[0].(*Term); d.IsConst() && d.ConstS() <= 0 {
			ch.immediate = true
			ch.tstate = 1
		}
		ts, _ := e.hostState["timers"].([]*Chan)
		e.hostState["timers"] = append(ts, ch)
		return ch
	})
}

var _ = strings.HasPrefix

// ---- time.Time.Sub without the division kernel ----
//
// The library code of Sub verifies its result with u.Add(d).Equal(t), which divides a symbolic duration
// by 1e9 - a kernel no installed back end decides next to the rest of a server-level path condition.
// The native version computes the same value: (t.sec-u.sec)*1e9 + (t.nsec-u.nsec), saturated to
// min/maxDuration. It is exact except when the two instants are 2^63 ns apart to within one second
// (then it saturates up to 1 s early), which no modelled clock value reaches.
func init() {
	// hasMono reports whether a wall word certainly carries / certainly lacks a monotonic reading.
	hasMono := func(e *Exec, w *Term) (yes, known bool) {
		if w.IsConst() {
			return w.ConstU()>>63 != 0, true
		}
		top := e.tt.Extract(w, 63, 63)
		if top.IsConst() {
			return top.ConstU() != 0, true
		}
		return false, false
	}
	sub := func(e *Exec, c *frame, fn *ssa.Function, t, u *Agg) (Value, bool) {
		tw, uw := t.elems[0].(*Term), u.elems[0].(*Term)
		tm, tk := hasMono(e, tw)
		um, uk := hasMono(e, uw)
		if !tk || !uk {
			return nil, false
		}
		tt := e.tt
		if tm && um {
			// both monotonic: the difference of the monotonic readings (package time: subMono)
			e.stubUsed("time.Time.Sub / time.Since: native; two monotonic readings differ by their monotonic parts")
			te, ue := t.elems[1].(*Term), u.elems[1].(*Term)
			d := tt.Bin(OpSub, te, ue)
			over := tt.And(tt.Cmp(OpSLt, d, tt.BV(64, 0)), tt.Cmp(OpSLt, ue, te))
			under := tt.And(tt.Cmp(OpSLt, tt.BV(64, 0), d), tt.Cmp(OpSLt, te, ue))
			return tt.Ite(over, tt.BV(64, 1<<63-1), tt.Ite(under, tt.BV(64, 1<<63), d)), true
		}
		e.stubUsed("time.Time.Sub / time.Since: native saturating (sec*1e9+nsec) difference when a side has no monotonic reading")
		// seconds since year 1 and nanoseconds of either representation
		secOf := func(a *Agg, mono bool) *Term {
			if !mono {
				return a.elems[1].(*Term)
			}
			w := a.elems[0].(*Term)
			return tt.Bin(OpAdd, tt.BV(64, 59453308800), tt.ZExt(tt.Extract(w, 62, 30), 64))
		}
		nsec := func(w *Term) *Term { return tt.ZExt(tt.Extract(w, 29, 0), 64) }
		dsec := tt.Bin(OpSub, secOf(t, tm), secOf(u, um))
		dn := tt.Bin(OpSub, nsec(tw), nsec(uw))
		const lim = 9223372036
		n := tt.Bin(OpAdd, tt.Bin(OpMul, dsec, tt.BV(64, 1000000000)), dn)
		hi := tt.Cmp(OpSLe, tt.BV(64, lim), dsec)
		lo := tt.Cmp(OpSLe, dsec, tt.BV(64, ^uint64(lim)+1))
		return tt.Ite(hi, tt.BV(64, 1<<63-1), tt.Ite(lo, tt.BV(64, 1<<63), n)), true
	}
	reg("(time.Time).Sub", func(e *Exec, c *frame, fn *ssa.Function, a []Value) Value {
		if v, ok := sub(e, c, fn, a[0].(*Agg), a[1].(*Agg)); ok {
			return v
		}
		return e.runFunction(c, 0, fn, a, nil)
	})
	reg("time.Since", func(e *Exec, c *frame, fn *ssa.Function, a []Value) Value {
		now := e.timeNow().(*Agg)
		if v, ok := sub(e, c, fn, now, a[0].(*Agg)); ok {
			return v
		}
		panic(e.unsupported("time.Since of a Time whose monotonic flag is symbolic"))
	})
	reg("time.Until", func(e *Exec, c *frame, fn *ssa.Function, a []Value) Value {
		now := e.timeNow().(*Agg)
		if v, ok := sub(e, c, fn, a[0].(*Agg), now); ok {
			return v
		}
		panic(e.unsupported("time.Until of a Time whose monotonic flag is symbolic"))
	})
}
