package main

// Path exploration: decisions are recorded in a vector; the search is depth-first by re-execution
// from the entry (stateless), distributed over workers by decision-vector prefix.

import (
	"fmt"
	"go/token"
	"go/types"
	"os"
	"sort"
	"strings"
	"sync"
	"time"

	"golang.org/x/tools/go/ssa"
)

type Violation struct {
	Kind      string            `json:"kind"` // assert | panic | deadlock | leak
	Label     string            `json:"label"`
	Where     string            `json:"where"`
	Stack     string            `json:"stack,omitempty"`
	Decisions []int64           `json:"decisions"`
	Inputs    []InputValue      `json:"inputs"`
	Observed  map[string]string `json:"observed,omitempty"`
	Schedule  []string          `json:"schedule,omitempty"`
	Entry     string            `json:"entry"`
	Confirmed string            `json:"confirmed,omitempty"` // "", "concrete-rerun", "native"
	Inconcl   bool              `json:"inconclusive_model,omitempty"`
}

type InputValue struct {
	Name  string `json:"name"`
	Kind  string `json:"kind"`
	Value uint64 `json:"value"`
	W     int    `json:"w"`
}

type inputSym struct {
	name string
	kind string
	t    *Term
}

type Stats struct {
	funcs          map[string]int
	funcsIntrinsic map[string]int
	recovered      int
}

func (s *Stats) countFn(fn *ssa.Function) {
	s.funcs[fn.String()]++
}

type Exec struct {
	prog   *Program
	cfg    *RunConfig
	tt     *TermTable
	solver *Solver
	hard   *Solver
	cross  *Solver
	crossFlushed int
	wid    int

	// per path
	pc        []*Term
	pcFlushed int
	pcHard    bool
	prefix    []int64
	decisions []int64
	pos       int
	alts      [][]int64
	steps     int
	maxSteps  int

	objCounter  int
	mapCounter  int
	chanCounter int
	globals     map[*ssa.Global]*Object
	initDone    map[*ssa.Package]bool
	symCounter  map[string]int
	inputs      []inputSym
	sched       *Sched
	reached     map[string]bool
	observed    map[string]string
	violations  []Violation
	assertsOK   int
	assertsChk  int
	pathNote    string
	maybeInfeasible bool
	clockLast   *Term
	hostState   map[string]interface{}

	summaryDepth   int
	summaryMark    int
	summaryMapMark int
	localPrefix    []int
	localPos       int
	localDecisions []int
	localConds     []*Term
	summariesOK    int
	summariesFail  int

	mapOrderAll bool
	mapOrderMax int
	trace       bool
	stats       *Stats
	concreteMode bool
	initRunning  *ssa.Package
	speculating  bool
	merges       int
	auxCounter   int
}

type RunConfig struct {
	Entry        string
	MaxSteps     int
	MaxPaths     int
	Workers      int
	TimeoutS     int
	SolverMs     int
	MapOrderAll  bool
	MapOrderMax  int
	SchedAll     bool
	CrossCheck   bool // every unsat that discharges an assertion is re-asked of a second solver
	HangIsViolation bool // a path that exceeds MaxSteps is reported as a violation (bounded termination)
	SchedYield   bool // explore every choice at explicit yields only (plus bounded preemption), deterministic elsewhere
	Preempt      int
	MaxConcretize int
	Trace        bool
	SolverLog    string
	StopOnViolation bool
	MustFail     bool // must-fail twin: a violation is the expected outcome
	Prefix       []int64
	AllowBlocked bool
	HashTransparent bool
	NoMerge      bool
	MaxSchedPoints int
	deadline     time.Time
}

func NewExec(prog *Program, cfg *RunConfig, wid int) (*Exec, error) {
	e := &Exec{prog: prog, cfg: cfg, wid: wid}
	e.tt = NewTermTable()
	logp := ""
	if cfg.SolverLog != "" {
		logp = fmt.Sprintf("%s.%d.smt2", cfg.SolverLog, wid)
	}
	s, err := NewSolver(KindZ3, e.tt, cfg.SolverMs, logp)
	if err != nil {
		return nil, err
	}
	e.solver = s
	e.stats = &Stats{funcs: map[string]int{}, funcsIntrinsic: map[string]int{}}
	e.maxSteps = cfg.MaxSteps
	e.mapOrderAll = cfg.MapOrderAll
	e.mapOrderMax = cfg.MapOrderMax
	e.trace = cfg.Trace
	return e, nil
}

func (e *Exec) Close() {
	if e.solver != nil {
		e.solver.Close()
	}
	if e.hard != nil {
		e.hard.Close()
	}
	if e.cross != nil {
		e.cross.Close()
	}
}

// ---- path condition & solver interaction ----

func (e *Exec) addPC(c *Term) {
	if c.IsTrue() {
		return
	}
	e.pc = append(e.pc, c)
	if c.hard {
		e.pcHard = true
	}
}

func (e *Exec) flushPC() {
	for e.pcFlushed < len(e.pc) {
		e.solver.Assert(e.pc[e.pcFlushed])
		e.pcFlushed++
	}
}

func (e *Exec) hardSolver() *Solver {
	if e.hard == nil {
		logp := ""
		if e.cfg.SolverLog != "" {
			logp = fmt.Sprintf("%s.%d.hard.smt2", e.cfg.SolverLog, e.wid)
		}
		s, err := NewSolver(KindCVC5Int, e.tt, 60000, logp)
		if err != nil {
			panic(engineAbort{kind: "internal", reason: "cannot start cvc5: " + err.Error()})
		}
		e.hard = s
	}
	return e.hard
}

// checkSat decides satisfiability of pc ∧ extra. Returns "sat", "unsat" or "unknown".
// When wantModel is non-nil and the answer is sat, the values of those terms are fetched.
func (e *Exec) checkSat(extra *Term, wantModel []*Term) (string, map[string]uint64) {
	if extra != nil && extra.IsFalse() {
		return "unsat", nil
	}
	if !e.cfg.deadline.IsZero() && time.Now().After(e.cfg.deadline) {
		panic(engineAbort{kind: "bound", reason: "time budget exhausted inside a path"})
	}
	useHard := e.pcHard || (extra != nil && extra.hard)
	if useHard {
		hs := e.hardSolver()
		hs.Push()
		for _, c := range e.pc {
			hs.Assert(c)
		}
		if extra != nil {
			hs.Assert(extra)
		}
		r := hs.Check()
		var m map[string]uint64
		if r == "sat" && wantModel != nil {
			m, _ = hs.GetValues(wantModel)
		}
		hs.Pop()
		if hs.dead {
			e.hard.Close()
			e.hard = nil
		}
		if r == "error" {
			r = "unknown"
		}
		return r, m
	}
	e.flushPC()
	s := e.solver
	s.Push()
	if extra != nil {
		s.Assert(extra)
	}
	r := s.Check()
	var m map[string]uint64
	if r == "sat" && wantModel != nil {
		m, _ = s.GetValues(wantModel)
	}
	s.Pop()
	if r == "error" {
		r = "unknown"
	}
	if r == "unknown" {
		// retry once on the other back ends
		r2, m2 := e.retryElsewhere(extra, wantModel)
		if r2 != "unknown" {
			return r2, m2
		}
	}
	return r, m
}

func (e *Exec) retryElsewhere(extra *Term, wantModel []*Term) (string, map[string]uint64) {
	for _, kind := range []SolverKind{KindCVC5, KindZ3New} {
		s, err := NewSolver(kind, e.tt, 60000, "")
		if err != nil {
			continue
		}
		for _, c := range e.pc {
			s.Assert(c)
		}
		if extra != nil {
			s.Assert(extra)
		}
		r := s.Check()
		var m map[string]uint64
		if r == "sat" && wantModel != nil {
			m, _ = s.GetValues(wantModel)
		}
		s.Close()
		e.prog.mu.Lock()
		e.prog.retries++
		e.prog.mu.Unlock()
		if r == "sat" || r == "unsat" {
			return r, m
		}
	}
	return "unknown", nil
}

// branch decides a boolean condition, forking the exploration when both outcomes are feasible.
func (e *Exec) branch(c *Term) bool {
	if c.IsConst() {
		return c.IsTrue()
	}
	if e.speculating {
		panic(specAbort{})
	}
	if e.summaryDepth > 0 {
		return e.localBranch(c)
	}
	if e.concreteMode {
		panic(engineAbort{kind: "internal", reason: "symbolic branch in concrete mode: " + c.String()})
	}
	if e.pos < len(e.prefix) {
		d := e.prefix[e.pos]
		e.pos++
		e.decisions = append(e.decisions, d)
		if d == 0 {
			e.addPC(c)
			return true
		}
		e.addPC(e.tt.Not(c))
		return false
	}
	e.pos++
	rt, _ := e.checkSat(c, nil)
	var rf string
	if rt == "unsat" {
		rf = "sat" // pc is satisfiable by construction
	} else {
		rf, _ = e.checkSat(e.tt.Not(c), nil)
	}
	if rt == "unknown" || rf == "unknown" {
		e.maybeInfeasible = true
	}
	tOK := rt != "unsat"
	fOK := rf != "unsat"
	switch {
	case tOK && fOK:
		alt := append(append([]int64{}, e.decisions...), 1)
		e.alts = append(e.alts, alt)
		e.decisions = append(e.decisions, 0)
		e.addPC(c)
		return true
	case tOK:
		e.decisions = append(e.decisions, 0)
		e.addPC(c)
		return true
	case fOK:
		e.decisions = append(e.decisions, 1)
		e.addPC(e.tt.Not(c))
		return false
	}
	// both unsat: pc itself was unsatisfiable (can only happen after an unknown)
	panic(pathEnd{"path condition unsatisfiable"})
}

// choose picks one of n alternatives, all of which are explored.
func (e *Exec) choose(n int, what string) int {
	if n <= 1 {
		return 0
	}
	if e.speculating {
		panic(specAbort{})
	}
	if e.summaryDepth > 0 {
		panic(summaryAbort{"choice in summary: " + what})
	}
	if e.pos < len(e.prefix) {
		d := e.prefix[e.pos]
		e.pos++
		e.decisions = append(e.decisions, d)
		if int(d) >= n {
			panic(engineAbort{kind: "internal", reason: fmt.Sprintf("replayed choice %d out of range %d (%s): nondeterministic engine", d, n, what)})
		}
		return int(d)
	}
	e.pos++
	for i := 1; i < n; i++ {
		alt := append(append([]int64{}, e.decisions...), int64(i))
		e.alts = append(e.alts, alt)
	}
	e.decisions = append(e.decisions, 0)
	return 0
}

// concretize enumerates the feasible values of t (up to the cap) and forks on them.
func (e *Exec) concretize(t *Term, what string) int64 {
	if t.IsConst() {
		return t.ConstS()
	}
	if e.speculating {
		panic(specAbort{})
	}
	if e.summaryDepth > 0 {
		panic(summaryAbort{"concretisation in summary: " + what})
	}
	if e.pos < len(e.prefix) {
		d := e.prefix[e.pos]
		e.pos++
		e.decisions = append(e.decisions, d)
		e.addPC(e.tt.Eq(t, e.tt.BV(t.W(), uint64(d))))
		return d
	}
	e.pos++
	cap := e.cfg.MaxConcretize
	if cap == 0 {
		cap = 64
	}
	var vals []int64
	var excl []*Term
	// the model is read through an auxiliary variable equal to t: evaluating a large term in the
	// solver's model is far slower than reading a constant's value
	orig := t
	if t.op != OpVar {
		e.auxCounter++
		aux := e.tt.Var(fmt.Sprintf("v_cz_%d_%d", e.wid, e.auxCounter), t.sort)
		excl = append(excl, e.tt.Eq(aux, t))
		t = aux
	}
	defer func() { t = orig }()
	for {
		var extra *Term
		if len(excl) > 0 {
			extra = e.tt.And(excl...)
		}
		r, m := e.checkSat(extra, []*Term{t})
		if r == "unknown" {
			e.maybeInfeasible = true
			panic(engineAbort{kind: "unknown", reason: "solver unknown while concretising " + what})
		}
		if r == "unsat" {
			break
		}
		key := t.name
		if t.op != OpVar {
			key = tname(t)
		}
		v := m[key]
		sv := sext(v, t.W())
		vals = append(vals, sv)
		excl = append(excl, e.tt.Not(e.tt.Eq(t, e.tt.BV(t.W(), v))))
		if len(vals) > cap {
			panic(engineAbort{kind: "bound", reason: fmt.Sprintf("more than %d feasible values while concretising %s", cap, what)})
		}
	}
	if len(vals) == 0 {
		panic(pathEnd{"path condition unsatisfiable (concretize)"})
	}
	sort.Slice(vals, func(i, j int) bool { return vals[i] < vals[j] })
	for _, v := range vals[1:] {
		alt := append(append([]int64{}, e.decisions...), v)
		e.alts = append(e.alts, alt)
	}
	e.decisions = append(e.decisions, vals[0])
	e.addPC(e.tt.Eq(orig, e.tt.BV(orig.W(), uint64(vals[0]))))
	return vals[0]
}

// ---- assertions ----

func (e *Exec) modelVars() []*Term {
	vs := make([]*Term, 0, len(e.inputs))
	for _, in := range e.inputs {
		if in.t.op == OpVar {
			vs = append(vs, in.t)
		}
	}
	return vs
}

func (e *Exec) assertHolds(c *Term, label string, fr *frame) {
	if e.summaryDepth > 0 {
		panic(summaryAbort{"assert in summary"})
	}
	e.assertsChk++
	if c.IsTrue() {
		e.assertsOK++
		return
	}
	r, m := e.checkSat(e.tt.Not(c), e.modelVars())
	switch r {
	case "unsat":
		if e.cfg.CrossCheck && !e.pcHard && !c.hard {
			e.crossCheck(c, label)
		}
		e.assertsOK++
		e.addPC(c) // redundant but keeps later queries small
		return
	case "unknown":
		e.maybeInfeasible = true
		e.pathNote = "solver unknown on assertion " + label
		e.prog.noteInconclusive("solver unknown on assertion " + label)
		e.addPC(c)
		return
	}
	e.recordViolation("assert", label, fr, m)
	// continue under the assumption that the assertion held, if possible
	if c.IsFalse() {
		panic(pathEnd{"assertion always fails here"})
	}
	rc, _ := e.checkSat(c, nil)
	if rc == "unsat" {
		panic(pathEnd{"assertion always fails here"})
	}
	e.addPC(c)
}

// crossCheck re-asks "pc and not c" of the other z3 build; a different answer is an engine/solver fault.
func (e *Exec) crossCheck(c *Term, label string) {
	if e.cross == nil {
		s, err := NewSolver(KindZ3New, e.tt, 20000, "")
		if err != nil {
			return
		}
		e.cross = s
		e.cross.Push()
		e.crossFlushed = 0
	}
	for e.crossFlushed < len(e.pc) {
		e.cross.Assert(e.pc[e.crossFlushed])
		e.crossFlushed++
	}
	e.cross.Push()
	e.cross.Assert(e.tt.Not(c))
	r := e.cross.Check()
	e.cross.Pop()
	e.prog.mu.Lock()
	e.prog.crossChecked++
	if r == "sat" {
		e.prog.crossDisagree++
	}
	e.prog.mu.Unlock()
	if r == "sat" {
		e.prog.noteInconclusive("solver disagreement on assertion " + label + ": unsat on the main back end, sat on the second one")
	}
	if e.cross.dead {
		e.cross.Close()
		e.cross = nil
	}
}

func (e *Exec) recordViolation(kind, label string, fr *frame, model map[string]uint64) {
	v := Violation{Kind: kind, Label: label, Entry: e.cfg.Entry}
	if fr != nil {
		v.Where = e.frPos(fr)
		v.Stack = e.stackString(fr)
	}
	v.Decisions = append([]int64{}, e.decisions...)
	if model == nil && len(e.inputs) > 0 {
		r, m := e.checkSat(nil, e.modelVars())
		if r == "sat" {
			model = m
		} else {
			v.Inconcl = true
		}
	}
	for _, in := range e.inputs {
		iv := InputValue{Name: in.name, Kind: in.kind, W: in.t.W()}
		if in.t.IsConst() {
			iv.Value = in.t.c
		} else if model != nil {
			iv.Value = model[in.t.name]
		}
		v.Inputs = append(v.Inputs, iv)
	}
	if len(e.observed) > 0 {
		v.Observed = map[string]string{}
		for k, x := range e.observed {
			v.Observed[k] = x
		}
	}
	if e.sched != nil {
		v.Schedule = append([]string{}, e.sched.trace...)
	}
	e.violations = append(e.violations, v)
}

// ---- pure-call summaries ----

func (e *Exec) localBranch(c *Term) bool {
	if e.localPos < len(e.localPrefix) {
		d := e.localPrefix[e.localPos]
		e.localPos++
		e.localDecisions = append(e.localDecisions, d)
		if d == 0 {
			e.localConds = append(e.localConds, c)
			return true
		}
		e.localConds = append(e.localConds, e.tt.Not(c))
		return false
	}
	e.localPos++
	e.localDecisions = append(e.localDecisions, 0)
	e.localConds = append(e.localConds, c)
	return true
}

type summaryState struct {
	depth, mark, mapMark      int
	prefix, decisions         []int
	pos                       int
	conds                     []*Term
}

func (e *Exec) saveSummary() summaryState {
	return summaryState{e.summaryDepth, e.summaryMark, e.summaryMapMark, e.localPrefix, e.localDecisions, e.localPos, e.localConds}
}

func (e *Exec) restoreSummary(s summaryState) {
	e.summaryDepth, e.summaryMark, e.summaryMapMark = s.depth, s.mark, s.mapMark
	e.localPrefix, e.localDecisions, e.localPos, e.localConds = s.prefix, s.decisions, s.pos, s.conds
}

const maxSummaryPaths = 4096

func (e *Exec) trySummary(caller *frame, callpos token.Pos, fn *ssa.Function, args []Value, env []Value) (res Value, ok bool) {
	saved := e.saveSummary()
	var savedG *frame
	if caller != nil && caller.g != nil {
		savedG = caller.g.fr
	}
	defer func() {
		e.restoreSummary(saved)
		if caller != nil && caller.g != nil {
			caller.g.fr = savedG
		}
	}()
	type outcome struct {
		cond *Term
		v    Value
	}
	var outs []outcome
	stack := [][]int{nil}
	for len(stack) > 0 {
		pre := stack[len(stack)-1]
		stack = stack[:len(stack)-1]
		e.summaryDepth = saved.depth + 1
		e.summaryMark = e.objCounter
		e.summaryMapMark = e.mapCounter
		e.localPrefix = pre
		e.localPos = 0
		e.localDecisions = nil
		e.localConds = nil
		var v Value
		failed := false
		panicked := false
		func() {
			defer func() {
				if r := recover(); r != nil {
					switch r.(type) {
					case summaryAbort:
						failed = true
					case goPanic:
						panicked = true
					default:
						panic(r)
					}
				}
			}()
			v = e.runFunction(caller, callpos, fn, args, env)
		}()
		if panicked {
			// a panicking local path kills the summary only if it is feasible under the path condition
			cond := e.tt.And(e.localConds...)
			conds, decs, pre2 := e.localConds, e.localDecisions, e.localPrefix
			e.summaryDepth = 0
			r := "sat"
			if saved.depth == 0 {
				r, _ = e.checkSat(cond, nil)
			}
			e.summaryDepth = saved.depth + 1
			e.localConds, e.localDecisions, e.localPrefix = conds, decs, pre2
			if r != "unsat" {
				failed = true
			}
		}
		if failed {
			e.summariesFail++
			return nil, false
		}
		if panicked {
			for i := len(pre); i < len(e.localDecisions); i++ {
				if e.localDecisions[i] == 0 {
					alt := append(append([]int{}, e.localDecisions[:i]...), 1)
					stack = append(stack, alt)
				}
			}
			continue
		}
		// alternatives discovered beyond the prefix
		for i := len(pre); i < len(e.localDecisions); i++ {
			if e.localDecisions[i] == 0 {
				alt := append(append([]int{}, e.localDecisions[:i]...), 1)
				stack = append(stack, alt)
			}
		}
		cond := e.tt.And(e.localConds...)
		if !cond.IsFalse() {
			outs = append(outs, outcome{cond, v})
		}
		if len(outs)+len(stack) > maxSummaryPaths {
			e.summariesFail++
			return nil, false
		}
	}
	if len(outs) == 0 {
		e.summariesFail++
		return nil, false
	}
	// merge: ite(c1, v1, ite(c2, v2, ... vn))
	merged := outs[len(outs)-1].v
	for i := len(outs) - 2; i >= 0; i-- {
		m, ok := e.mergeVals(outs[i].cond, outs[i].v, merged)
		if !ok {
			e.summariesFail++
			return nil, false
		}
		merged = m
	}
	e.summariesOK++
	return merged, true
}

func (e *Exec) mergeVals(c *Term, a, b Value) (Value, bool) {
	switch av := a.(type) {
	case nil:
		return nil, b == nil
	case *Term:
		bv, ok := b.(*Term)
		if !ok || av.sort != bv.sort {
			return nil, false
		}
		return e.tt.Ite(c, av, bv), true
	case Float:
		bv, ok := b.(Float)
		return av, ok && av.f == bv.f
	case Str:
		bv, ok := b.(Str)
		if !ok || av.Len() != bv.Len() {
			return nil, false
		}
		if av.IsConcrete() && bv.IsConcrete() && av.s == bv.s {
			return av, true
		}
		ab, bb := e.strBytes(av), e.strBytes(bv)
		out := make([]*Term, len(ab))
		for i := range ab {
			out[i] = e.tt.Ite(c, ab[i], bb[i])
		}
		return e.mkStr(out), true
	case *Agg:
		bv, ok := b.(*Agg)
		if !ok || len(av.elems) != len(bv.elems) {
			return nil, false
		}
		out := &Agg{elems: make([]Value, len(av.elems))}
		for i := range av.elems {
			m, ok := e.mergeVals(c, av.elems[i], bv.elems[i])
			if !ok {
				return nil, false
			}
			out.elems[i] = m
		}
		return out, true
	case Tuple:
		bv, ok := b.(Tuple)
		if !ok || len(av) != len(bv) {
			return nil, false
		}
		out := make(Tuple, len(av))
		for i := range av {
			m, ok := e.mergeVals(c, av[i], bv[i])
			if !ok {
				return nil, false
			}
			out[i] = m
		}
		return out, true
	case Ptr:
		bv, ok := b.(Ptr)
		return av, ok && ptrEq(av, bv)
	case Slice:
		bv, ok := b.(Slice)
		if !ok {
			return nil, false
		}
		if av.IsNil() && bv.IsNil() {
			return av, true
		}
		if av.obj == bv.obj && av.off == bv.off && av.len == bv.len && av.cap == bv.cap && ptrEq(Ptr{av.obj, av.path}, Ptr{bv.obj, bv.path}) {
			return av, true
		}
		// two fresh byte slices of the same length: merge contents into a fresh slice
		if !av.IsNil() && !bv.IsNil() && av.len == bv.len && av.obj.birth > e.summaryMark && bv.obj.birth > e.summaryMark {
			ae, be := e.sliceElems(av), e.sliceElems(bv)
			arr := &Agg{elems: make([]Value, av.len)}
			for i := range ae {
				m, ok := e.mergeVals(c, ae[i], be[i])
				if !ok {
					return nil, false
				}
				arr.elems[i] = m
			}
			obj := e.newObject(av.obj.typ, arr, "merged")
			return Slice{obj: obj, len: av.len, cap: av.len}, true
		}
		return nil, false
	case Iface:
		bv, ok := b.(Iface)
		if !ok {
			return nil, false
		}
		if av.t == nil && bv.t == nil {
			return av, true
		}
		if av.t == nil || bv.t == nil || !types.Identical(av.t, bv.t) {
			return nil, false
		}
		m, ok := e.mergeVals(c, av.v, bv.v)
		if !ok {
			return nil, false
		}
		return Iface{t: av.t, v: m}, true
	case *Map:
		bv, ok := b.(*Map)
		return av, ok && av == bv
	case *ssa.Function:
		bv, ok := b.(*ssa.Function)
		return av, ok && av == bv
	}
	return nil, false
}

// ---- the search driver ----

type PathResult struct {
	Decisions  []int64
	Verdict    string // ok | violation | abort:<kind> | ended
	Note       string
	Steps      int
	PCLen      int
	Reached    []string
	Violations []Violation
	AssertsOK  int
	AssertsChk int
	Alts       [][]int64
	Inputs     []InputValue
	MaybeInf   bool
	Goroutines int
	SchedPts   int
}

type Frontier struct {
	mu     sync.Mutex
	cond   *sync.Cond
	queue  [][]int64
	active int
	closed bool
}

func NewFrontier() *Frontier {
	f := &Frontier{}
	f.cond = sync.NewCond(&f.mu)
	return f
}

func (f *Frontier) Push(p [][]int64) {
	f.mu.Lock()
	f.queue = append(f.queue, p...)
	f.mu.Unlock()
	f.cond.Broadcast()
}

// Pop blocks until work is available or the search is finished.
func (f *Frontier) Pop() ([]int64, bool) {
	f.mu.Lock()
	defer f.mu.Unlock()
	for {
		if f.closed {
			return nil, false
		}
		if n := len(f.queue); n > 0 {
			p := f.queue[n-1]
			f.queue = f.queue[:n-1]
			f.active++
			return p, true
		}
		if f.active == 0 {
			f.closed = true
			f.cond.Broadcast()
			return nil, false
		}
		f.cond.Wait()
	}
}

func (f *Frontier) Done() {
	f.mu.Lock()
	f.active--
	f.mu.Unlock()
	f.cond.Broadcast()
}

func (f *Frontier) Close() {
	f.mu.Lock()
	f.closed = true
	f.mu.Unlock()
	f.cond.Broadcast()
}

type RunResult struct {
	Entry         string
	Paths         int
	Completed     int
	Aborted       map[string]int
	AbortSamples  []string
	Decisions     int
	Steps         int
	Violations    []Violation
	Reached       map[string]int
	AssertsOK     int
	AssertsChk    int
	Queries       int
	SolverTime    time.Duration
	HardQueries   int
	Unknowns      int
	Funcs         map[string]int
	Intrinsics    map[string]int
	Samples       []PathResult
	Incomplete    string
	Wall          time.Duration
	SummariesOK   int
	SummariesFail int
	MaxGoroutines int
	SchedPoints   int
	MaybeInf      int
}

func Explore(prog *Program, cfg *RunConfig) *RunResult {
	mainZ3()
	start := time.Now()
	res := &RunResult{Entry: cfg.Entry, Aborted: map[string]int{}, Reached: map[string]int{}, Funcs: map[string]int{}, Intrinsics: map[string]int{}}
	fr := NewFrontier()
	first := []int64{}
	if cfg.Prefix != nil {
		first = cfg.Prefix
	}
	fr.Push([][]int64{first})
	var mu sync.Mutex
	var wg sync.WaitGroup
	nw := cfg.Workers
	if nw <= 0 {
		nw = 1
	}
	deadline := start.Add(time.Duration(cfg.TimeoutS) * time.Second)
	if cfg.TimeoutS > 0 {
		cfg.deadline = deadline.Add(5 * time.Second)
	}
	progress := os.Getenv("VERIF_PROGRESS") != ""
	stopProgress := make(chan struct{})
	if progress {
		go func() {
			tk := time.NewTicker(10 * time.Second)
			defer tk.Stop()
			for {
				select {
				case <-tk.C:
					mu.Lock()
					fmt.Fprintf(os.Stderr, "[progress %s] paths=%d completed=%d aborted=%v violations=%d queue=%d t=%.0fs\n", cfg.Entry, res.Paths, res.Completed, res.Aborted, len(res.Violations), len(fr.queue), time.Since(start).Seconds())
					mu.Unlock()
				case <-stopProgress:
					return
				}
			}
		}()
	}
	for w := 0; w < nw; w++ {
		wg.Add(1)
		go func(wid int) {
			defer wg.Done()
			e, err := NewExec(prog, cfg, wid)
			if err != nil {
				mu.Lock()
				res.Incomplete = "cannot start solver: " + err.Error()
				mu.Unlock()
				fr.Close()
				return
			}
			defer func() {
				mu.Lock()
				res.Queries += e.solver.Queries
				res.SolverTime += e.solver.TotalTime
				res.Unknowns += e.solver.Unknown + e.solver.Errors
				if e.hard != nil {
					res.Queries += e.hard.Queries
					res.HardQueries += e.hard.Queries
					res.SolverTime += e.hard.TotalTime
					res.Unknowns += e.hard.Unknown + e.hard.Errors
				}
				for k, v := range e.stats.funcs {
					res.Funcs[k] += v
				}
				for k, v := range e.stats.funcsIntrinsic {
					res.Intrinsics[k] += v
				}
				res.SummariesOK += e.summariesOK
				res.SummariesFail += e.summariesFail
				mu.Unlock()
				e.Close()
			}()
			for {
				pre, ok := fr.Pop()
				if !ok {
					return
				}
				pr := e.RunPath(pre)
				mu.Lock()
				res.Paths++
				res.Decisions += len(pr.Decisions)
				res.Steps += pr.Steps
				res.AssertsOK += pr.AssertsOK
				res.AssertsChk += pr.AssertsChk
				if pr.MaybeInf {
					res.MaybeInf++
				}
				if pr.Goroutines > res.MaxGoroutines {
					res.MaxGoroutines = pr.Goroutines
				}
				res.SchedPoints += pr.SchedPts
				for _, t := range pr.Reached {
					res.Reached[t]++
				}
				if strings.HasPrefix(pr.Verdict, "abort:") {
					res.Aborted[pr.Verdict]++
					if len(res.AbortSamples) < 10 {
						res.AbortSamples = append(res.AbortSamples, pr.Verdict+": "+pr.Note)
					}
				} else {
					res.Completed++
				}
				res.Violations = append(res.Violations, pr.Violations...)
				if len(res.Samples) < 4 || (len(pr.Violations) > 0 && len(res.Samples) < 8) {
					s := *pr
					s.Alts = nil
					res.Samples = append(res.Samples, s)
				}
				stop := false
				if cfg.MaxPaths > 0 && res.Paths >= cfg.MaxPaths {
					res.Incomplete = fmt.Sprintf("path bound %d reached", cfg.MaxPaths)
					stop = true
				}
				if cfg.TimeoutS > 0 && time.Now().After(deadline) {
					res.Incomplete = fmt.Sprintf("time budget %ds exhausted", cfg.TimeoutS)
					stop = true
				}
				if cfg.StopOnViolation && len(res.Violations) > 0 {
					stop = true
				}
				mu.Unlock()
				if stop {
					fr.Done()
					fr.Close()
					return
				}
				fr.Push(pr.Alts)
				fr.Done()
			}
		}(w)
	}
	wg.Wait()
	close(stopProgress)
	res.Wall = time.Since(start)
	return res
}

// RunPath executes one path following the decision prefix.
func (e *Exec) RunPath(prefix []int64) *PathResult {
	e.pc = nil
	e.pcFlushed = 0
	e.pcHard = false
	e.prefix = prefix
	e.decisions = make([]int64, 0, len(prefix)+16)
	e.pos = 0
	e.alts = nil
	e.steps = 0
	e.objCounter = 0
	e.mapCounter = 0
	e.chanCounter = 0
	e.globals = map[*ssa.Global]*Object{}
	e.initDone = map[*ssa.Package]bool{}
	e.symCounter = map[string]int{}
	e.inputs = nil
	e.reached = map[string]bool{}
	e.observed = map[string]string{}
	e.violations = nil
	e.assertsOK, e.assertsChk = 0, 0
	e.pathNote = ""
	e.maybeInfeasible = false
	e.clockLast = nil
	e.hostState = map[string]interface{}{}
	e.summaryDepth = 0
	e.mapOrderAll = e.cfg.MapOrderAll
	if e.cross != nil {
		e.cross.Pop()
		e.cross.Push()
		e.crossFlushed = 0
	}
	e.solver.Push()
	pr := &PathResult{}
	entry := e.prog.entryFunc(e.cfg.Entry)
	verdict, note := e.runScheduled(entry)
	e.solver.Pop()
	if e.solver.dead {
		// restart the solver
		e.solver.Close()
		s, err := NewSolver(KindZ3, e.tt, e.cfg.SolverMs, "")
		if err == nil {
			e.solver = s
		}
	}
	pr.Verdict = verdict
	pr.Note = note
	if e.pathNote != "" && pr.Note == "" {
		pr.Note = e.pathNote
	}
	pr.Decisions = append([]int64{}, e.decisions...)
	pr.Steps = e.steps
	pr.PCLen = len(e.pc)
	for t := range e.reached {
		pr.Reached = append(pr.Reached, t)
	}
	sort.Strings(pr.Reached)
	pr.Violations = e.violations
	if len(e.violations) > 0 && verdict == "ok" {
		pr.Verdict = "violation"
	}
	pr.AssertsOK, pr.AssertsChk = e.assertsOK, e.assertsChk
	pr.Alts = e.alts
	pr.MaybeInf = e.maybeInfeasible
	if e.sched != nil {
		pr.Goroutines = len(e.sched.gs)
		pr.SchedPts = e.sched.points
	}
	if e.trace {
		fmt.Fprintf(os.Stderr, "PATH %v => %s %s (steps %d)\n", pr.Decisions, pr.Verdict, pr.Note, pr.Steps)
	}
	return pr
}
