package main

// The SSA interpreter proper: frames, instruction dispatch, calls, panics/defers.
// Structure follows golang.org/x/tools/go/ssa/interp, with symbolic scalars.

import (
	"fmt"
	"go/constant"
	"go/token"
	"go/types"
	"os"
	"strings"
	"time"

	"golang.org/x/tools/go/ssa"
)

// ---- control-flow exceptions (host panics used to unwind the interpreter) ----

// goPanic is a panic of the interpreted program (explicit panic() or a run-time error).
type goPanic struct {
	v   Value  // the panic value (an Iface) for explicit panics
	msg string // description (runtime errors and for reporting)
	pos string
}

// engineAbort: the engine cannot continue this path (unsupported feature, bound exceeded...).
type engineAbort struct {
	kind   string // "unsupported", "bound", "internal"
	reason string
}

// pathEnd: the path ends normally without running the rest (assume(false), violation-stop).
type pathEnd struct{ why string }

// killed: the scheduler is tearing down the path; unwind this goroutine.
type killed struct{}

// summaryAbort: a pure-call summary attempt must be abandoned.
type summaryAbort struct{ why string }

func (e *Exec) unsupported(format string, args ...interface{}) engineAbort {
	return engineAbort{kind: "unsupported", reason: fmt.Sprintf(format, args...)}
}

func (e *Exec) goPanic(msg string) goPanic {
	return goPanic{msg: msg, v: Iface{t: e.prog.runtimeErrType, v: Str{s: msg}}, pos: e.curPos()}
}

type deferred struct {
	fn    Value
	args  []Value
	instr *ssa.Defer
	tail  *deferred
}

type frame struct {
	e         *Exec
	g         *Goroutine
	caller    *frame
	fn        *ssa.Function
	info      *fnInfo
	block     *ssa.BasicBlock
	prevBlock *ssa.BasicBlock
	env       []Value
	locals    []*Object
	defers    *deferred
	result    Value
	panicking bool
	panic     interface{}
	pos       token.Pos
	depth     int
	skipPhis  bool
}

// fnInfo caches a dense numbering of a function's SSA values.
type fnInfo struct {
	index map[ssa.Value]int
	n     int
}

func (p *Program) infoFor(fn *ssa.Function) *fnInfo {
	if v, ok := p.fnInfos.Load(fn); ok {
		return v.(*fnInfo)
	}
	fi := &fnInfo{index: map[ssa.Value]int{}}
	add := func(v ssa.Value) {
		if _, ok := fi.index[v]; !ok {
			fi.index[v] = fi.n
			fi.n++
		}
	}
	for _, p := range fn.Params {
		add(p)
	}
	for _, fv := range fn.FreeVars {
		add(fv)
	}
	for _, l := range fn.Locals {
		add(l)
	}
	for _, b := range fn.Blocks {
		for _, in := range b.Instrs {
			if v, ok := in.(ssa.Value); ok {
				add(v)
			}
		}
	}
	actual, _ := p.fnInfos.LoadOrStore(fn, fi)
	return actual.(*fnInfo)
}

func (fr *frame) set(v ssa.Value, x Value) {
	fr.env[fr.info.index[v]] = x
}

func (fr *frame) get(key ssa.Value) Value {
	switch key := key.(type) {
	case nil:
		return nil
	case *ssa.Function:
		return key
	case *ssa.Builtin:
		return key
	case *ssa.Const:
		return fr.e.constValue(key)
	case *ssa.Global:
		return Ptr{obj: fr.e.globalObj(key)}
	}
	if i, ok := fr.info.index[key]; ok {
		v := fr.env[i]
		if v == nil {
			// a nil Value is only legal for unset registers; report clearly
			if _, isNilOK := key.(*ssa.Alloc); !isNilOK {
				panic(engineAbort{kind: "internal", reason: fmt.Sprintf("get: unset register %s in %s", key.Name(), fr.fn)})
			}
		}
		return v
	}
	panic(engineAbort{kind: "internal", reason: fmt.Sprintf("get: no value for %T %s in %s", key, key.Name(), fr.fn)})
}

func (e *Exec) curPos() string {
	g := e.sched.cur
	if g == nil || g.fr == nil {
		return ""
	}
	return e.frPos(g.fr)
}

func (e *Exec) frPos(fr *frame) string {
	for f := fr; f != nil; f = f.caller {
		if f.pos.IsValid() {
			p := e.prog.fset.Position(f.pos)
			return fmt.Sprintf("%s:%d", shortFile(p.Filename), p.Line)
		}
	}
	return ""
}

func (e *Exec) stackString(fr *frame) string {
	var sb strings.Builder
	n := 0
	for f := fr; f != nil && n < 12; f = f.caller {
		p := e.prog.fset.Position(f.pos)
		fmt.Fprintf(&sb, "  %s (%s:%d)\n", f.fn.String(), shortFile(p.Filename), p.Line)
		n++
	}
	return sb.String()
}

func shortFile(f string) string {
	if i := strings.Index(f, "/pkg/mod/"); i >= 0 {
		return f[i+9:]
	}
	if strings.HasPrefix(f, "/repo/") {
		return f[6:]
	}
	if i := strings.Index(f, "/src/"); i >= 0 && strings.Contains(f, "go") {
		return f[i+5:]
	}
	return f
}

// ---- constants ----

func (e *Exec) constValue(c *ssa.Const) Value {
	if c.Value == nil {
		return e.zero(c.Type())
	}
	t := c.Type()
	if tp, ok := t.(*types.TypeParam); ok {
		_ = tp
		panic(e.unsupported("constant of type parameter type"))
	}
	if b, ok := t.Underlying().(*types.Basic); ok {
		switch {
		case b.Info()&types.IsBoolean != 0:
			return e.tt.Bool(constantBool(c))
		case b.Info()&types.IsInteger != 0:
			w := e.intWidth(b)
			if isSigned(b) {
				return e.tt.BV(w, uint64(c.Int64()))
			}
			return e.tt.BV(w, c.Uint64())
		case b.Info()&types.IsFloat != 0:
			return Float{c.Float64()}
		case b.Info()&types.IsString != 0:
			return Str{s: constantString(c)}
		}
	}
	panic(e.unsupported("constValue %v of type %v", c, t))
}

// ---- running ----

func (e *Exec) runDefer(fr *frame, d *deferred) {
	var ok bool
	defer func() {
		if !ok {
			r := recover()
			switch r.(type) {
			case goPanic:
				fr.panicking = true
				fr.panic = r
			default:
				panic(r)
			}
		}
	}()
	e.call(fr, d.instr.Pos(), d.fn, d.args)
	ok = true
}

func (e *Exec) runDefers(fr *frame) {
	for d := fr.defers; d != nil; d = d.tail {
		e.runDefer(fr, d)
	}
	fr.defers = nil
	if fr.panicking {
		panic(fr.panic)
	}
}

const maxCallDepth = 400

func (e *Exec) callSSA(caller *frame, callpos token.Pos, fn *ssa.Function, args []Value, env []Value) Value {
	if fn == nil {
		panic(e.goPanic("runtime error: invalid memory address or nil pointer dereference (call of nil func)"))
	}
	if caller != nil {
		caller.pos = callpos
	}
	name := fn.String()
	if fn.Parent() == nil || fn.Synthetic != "" {
		if in := e.prog.intrinsic(fn, name); in != nil {
			e.stats.funcsIntrinsic[name]++
			return in(e, caller, fn, args)
		}
	}
	if fn.Blocks == nil {
		if fn.Pkg != nil {
			fn.Pkg.Build()
		}
		if fn.Blocks == nil {
			panic(e.unsupported("no code for function %s", name))
		}
	}
	if fn.TypeParams().Len() > 0 && len(fn.TypeArgs()) == 0 {
		panic(e.unsupported("uninstantiated generic function %s", name))
	}
	if e.prog.summarize[name] && e.summaryDepth < 6 {
		if v, ok := e.trySummary(caller, callpos, fn, args, env); ok {
			return v
		}
	}
	return e.runFunction(caller, callpos, fn, args, env)
}

func (e *Exec) runFunction(caller *frame, callpos token.Pos, fn *ssa.Function, args []Value, env []Value) Value {
	info := e.prog.infoFor(fn)
	fr := &frame{e: e, caller: caller, fn: fn, info: info}
	if caller != nil {
		fr.g = caller.g
		fr.depth = caller.depth + 1
		if fr.depth > maxCallDepth {
			panic(engineAbort{kind: "bound", reason: "call depth exceeded in " + fn.String()})
		}
	} else {
		fr.g = e.sched.cur
	}
	e.stats.countFn(fn)
	fr.env = make([]Value, info.n)
	fr.block = fn.Blocks[0]
	fr.locals = make([]*Object, len(fn.Locals))
	for i, l := range fn.Locals {
		t := deref(l.Type())
		fr.locals[i] = e.newObject(t, e.zero(t), l.Name())
		fr.set(l, Ptr{obj: fr.locals[i]})
	}
	if len(args) != len(fn.Params) {
		panic(engineAbort{kind: "internal", reason: fmt.Sprintf("arity mismatch calling %s: %d args for %d params", fn, len(args), len(fn.Params))})
	}
	for i, p := range fn.Params {
		fr.set(p, args[i])
	}
	for i, fv := range fn.FreeVars {
		fr.set(fv, env[i])
	}
	if fr.g != nil {
		saved := fr.g.fr
		fr.g.fr = fr
		defer func() { fr.g.fr = saved }()
	}
	for fr.block != nil {
		e.runFrame(fr)
	}
	return fr.result
}

func (e *Exec) runFrame(fr *frame) {
	defer func() {
		if fr.block == nil {
			return // normal return
		}
		r := recover()
		gp, isGo := r.(goPanic)
		if !isGo {
			panic(r) // engine-level unwinding: do not run target defers
		}
		fr.panicking = true
		fr.panic = gp
		e.runDefers(fr) // re-panics if still panicking
		fr.block = fr.fn.Recover
		if fr.block == nil {
			// recovered in a function without named results: return zero values
			fr.result = e.zero(fr.fn.Signature.Results())
			if fr.fn.Signature.Results().Len() == 0 {
				fr.result = nil
			}
		}
	}()
	for {
		if fr.skipPhis {
			fr.skipPhis = false
		} else {
			e.executePhis(fr)
		}
		for _, instr := range fr.block.Instrs {
			if _, ok := instr.(*ssa.Phi); ok {
				continue
			}
			e.steps++
			if e.steps&4095 == 0 && !e.cfg.deadline.IsZero() && time.Now().After(e.cfg.deadline) {
				panic(engineAbort{kind: "bound", reason: "time budget exhausted inside a path"})
			}
			if e.steps > e.maxSteps {
				panic(engineAbort{kind: "bound", reason: fmt.Sprintf("step bound %d exceeded", e.maxSteps)})
			}
			if e.trace {
				e.traceInstr(fr, instr)
			}
			switch e.visitInstr(fr, instr) {
			case kReturn:
				return
			case kJump:
				goto next
			}
		}
	next:
	}
}

func (e *Exec) traceInstr(fr *frame, instr ssa.Instruction) {
	gid := -1
	if fr.g != nil {
		gid = fr.g.id
	}
	if v, ok := instr.(ssa.Value); ok {
		fmt.Fprintf(os.Stderr, "[g%d] %s\t%s = %s\n", gid, fr.fn.Name(), v.Name(), instr)
	} else {
		fmt.Fprintf(os.Stderr, "[g%d] %s\t%s\n", gid, fr.fn.Name(), instr)
	}
}

func (e *Exec) executePhis(fr *frame) {
	instrs := fr.block.Instrs
	n := 0
	for n < len(instrs) {
		if _, ok := instrs[n].(*ssa.Phi); !ok {
			break
		}
		n++
	}
	if n == 0 {
		return
	}
	predIndex := -1
	for i, p := range fr.block.Preds {
		if p == fr.prevBlock {
			predIndex = i
			break
		}
	}
	if predIndex < 0 {
		panic(engineAbort{kind: "internal", reason: "phi: predecessor not found"})
	}
	tmp := make([]Value, n)
	for i := 0; i < n; i++ {
		tmp[i] = fr.get(instrs[i].(*ssa.Phi).Edges[predIndex])
	}
	for i := 0; i < n; i++ {
		fr.set(instrs[i].(*ssa.Phi), tmp[i])
	}
}

type continuation int

const (
	kNext continuation = iota
	kReturn
	kJump
)

func deref(t types.Type) types.Type {
	if p, ok := t.Underlying().(*types.Pointer); ok {
		return p.Elem()
	}
	panic(fmt.Sprintf("deref of non-pointer %v", t))
}

func (e *Exec) visitInstr(fr *frame, instr ssa.Instruction) continuation {
	if p := instr.Pos(); p.IsValid() {
		fr.pos = p
	}
	switch instr := instr.(type) {
	case *ssa.DebugRef:
	case *ssa.UnOp:
		fr.set(instr, e.unop(fr, instr, fr.get(instr.X)))
	case *ssa.BinOp:
		fr.set(instr, e.binop(instr.Op, instr.X.Type(), fr.get(instr.X), fr.get(instr.Y)))
	case *ssa.Call:
		fn, args := e.prepareCall(fr, &instr.Call)
		fr.set(instr, e.call(fr, instr.Pos(), fn, args))
	case *ssa.ChangeInterface:
		fr.set(instr, fr.get(instr.X))
	case *ssa.ChangeType:
		fr.set(instr, fr.get(instr.X))
	case *ssa.Convert:
		fr.set(instr, e.conv(instr.Type(), instr.X.Type(), fr.get(instr.X)))
	case *ssa.MultiConvert:
		fr.set(instr, e.conv(instr.Type(), instr.X.Type(), fr.get(instr.X)))
	case *ssa.SliceToArrayPointer:
		s := fr.get(instr.X).(Slice)
		n := int(deref(instr.Type()).Underlying().(*types.Array).Len())
		if s.len < n {
			panic(e.goPanic(fmt.Sprintf("runtime error: cannot convert slice with length %d to array or pointer to array with length %d", s.len, n)))
		}
		if s.IsNil() {
			fr.set(instr, Ptr{})
		} else {
			if s.off != 0 || e.arrayLenAt(s.obj, s.path) != n {
				// a window into a larger array: the conversion [N]T(s) loads it at once, so a read-only
				// snapshot object stands for the window (a store through it aborts the path)
				arr := &Agg{elems: make([]Value, n)}
				for i, x := range e.sliceElems(s)[:n] {
					arr.elems[i] = e.copyVal(x)
				}
				obj := e.newObject(deref(instr.Type()), arr, "array window")
				obj.frozen = true
				fr.set(instr, Ptr{obj: obj})
			} else {
				fr.set(instr, Ptr{obj: s.obj, path: s.path})
			}
		}
	case *ssa.MakeInterface:
		fr.set(instr, Iface{t: instr.X.Type(), v: fr.get(instr.X)})
	case *ssa.Extract:
		fr.set(instr, fr.get(instr.Tuple).(Tuple)[instr.Index])
	case *ssa.Slice:
		fr.set(instr, e.sliceOp(fr, instr))
	case *ssa.Return:
		switch len(instr.Results) {
		case 0:
			fr.result = nil
		case 1:
			fr.result = fr.get(instr.Results[0])
		default:
			res := make(Tuple, len(instr.Results))
			for i, r := range instr.Results {
				res[i] = fr.get(r)
			}
			fr.result = res
		}
		fr.block = nil
		return kReturn
	case *ssa.RunDefers:
		e.runDefers(fr)
	case *ssa.Panic:
		v := fr.get(instr.X)
		panic(goPanic{v: v, msg: "panic: " + e.panicString(v), pos: e.frPos(fr)})
	case *ssa.Send:
		e.chanSend(fr, fr.get(instr.Chan).(*Chan), fr.get(instr.X))
	case *ssa.Store:
		e.store(fr.get(instr.Addr).(Ptr), fr.get(instr.Val))
	case *ssa.If:
		c := fr.get(instr.Cond).(*Term)
		if !c.IsConst() && e.tryMergeIf(fr, instr, c) {
			return kJump
		}
		succ := 1
		if e.branch(c) {
			succ = 0
		}
		fr.prevBlock, fr.block = fr.block, fr.block.Succs[succ]
		return kJump
	case *ssa.Jump:
		fr.prevBlock, fr.block = fr.block, fr.block.Succs[0]
		return kJump
	case *ssa.Defer:
		fn, args := e.prepareCall(fr, &instr.Call)
		if instr.DeferStack != nil {
			panic(e.unsupported("defer with explicit DeferStack (range-over-func defer)"))
		}
		fr.defers = &deferred{fn: fn, args: args, instr: instr, tail: fr.defers}
	case *ssa.Go:
		fn, args := e.prepareCall(fr, &instr.Call)
		e.spawn(fr, instr, fn, args)
	case *ssa.MakeChan:
		n := e.concreteInt(fr.get(instr.Size).(*Term), "chan size")
		fr.set(instr, e.newChan(int(n), instr.Type()))
	case *ssa.Alloc:
		t := deref(instr.Type())
		if instr.Heap {
			fr.set(instr, Ptr{obj: e.newObject(t, e.zero(t), instr.Comment)})
		} else {
			p := fr.get(instr).(Ptr)
			p.obj.v = e.zero(t)
		}
	case *ssa.MakeSlice:
		ln := int(e.concreteInt(fr.get(instr.Len).(*Term), "make len"))
		cp := int(e.concreteInt(fr.get(instr.Cap).(*Term), "make cap"))
		if ln < 0 || cp < ln {
			panic(e.goPanic("runtime error: makeslice: len out of range"))
		}
		if cp > 1<<22 {
			panic(engineAbort{kind: "bound", reason: "makeslice too large"})
		}
		et := instr.Type().Underlying().(*types.Slice).Elem()
		fr.set(instr, e.makeSlice(et, ln, cp))
	case *ssa.MakeMap:
		fr.set(instr, e.newMap(instr.Type().Underlying().(*types.Map).Key()))
	case *ssa.Range:
		fr.set(instr, e.rangeIter(fr.get(instr.X), instr.X.Type()))
	case *ssa.Next:
		fr.set(instr, e.iterNext(fr.get(instr.Iter), instr))
	case *ssa.FieldAddr:
		p := fr.get(instr.X).(Ptr)
		if p.IsNil() {
			panic(e.goPanic("runtime error: invalid memory address or nil pointer dereference"))
		}
		fr.set(instr, Ptr{obj: p.obj, path: appendPath(p.path, instr.Field)})
	case *ssa.Field:
		fr.set(instr, fr.get(instr.X).(*Agg).elems[instr.Field])
	case *ssa.IndexAddr:
		fr.set(instr, e.indexAddr(fr, instr))
	case *ssa.Index:
		fr.set(instr, e.index(fr, instr))
	case *ssa.Lookup:
		fr.set(instr, e.lookup(fr, instr))
	case *ssa.MapUpdate:
		m := fr.get(instr.Map).(*Map)
		if m == nil {
			panic(e.goPanic("assignment to entry in nil map"))
		}
		e.mapUpdate(m, fr.get(instr.Key), fr.get(instr.Value))
	case *ssa.TypeAssert:
		fr.set(instr, e.typeAssert(instr, fr.get(instr.X).(Iface)))
	case *ssa.MakeClosure:
		bindings := make([]Value, len(instr.Bindings))
		for i, b := range instr.Bindings {
			bindings[i] = fr.get(b)
		}
		fr.set(instr, &Closure{fn: instr.Fn.(*ssa.Function), env: bindings})
	case *ssa.Select:
		fr.set(instr, e.selectOp(fr, instr))
	default:
		panic(e.unsupported("instruction %T", instr))
	}
	return kNext
}

func appendPath(p []int, i int) []int {
	n := make([]int, len(p)+1)
	copy(n, p)
	n[len(p)] = i
	return n
}

func (e *Exec) prepareCall(fr *frame, call *ssa.CallCommon) (fn Value, args []Value) {
	v := fr.get(call.Value)
	if call.Method == nil {
		fn = v
	} else {
		recv, ok := v.(Iface)
		if !ok {
			panic(engineAbort{kind: "internal", reason: fmt.Sprintf("invoke on non-interface %T", v)})
		}
		if recv.t == nil {
			panic(e.goPanic("runtime error: invalid memory address or nil pointer dereference (method call on nil interface)"))
		}
		if h, isHost := recv.v.(*Host); isHost {
			fn = &hostMethod{recv: h, name: call.Method.Name(), sig: call.Signature()}
		} else {
			f := e.prog.lookupMethod(recv.t, call.Method)
			if f == nil {
				panic(engineAbort{kind: "internal", reason: fmt.Sprintf("method set of %v does not contain %s", recv.t, call.Method)})
			}
			fn = f
			args = append(args, recv.v)
		}
	}
	for _, a := range call.Args {
		args = append(args, fr.get(a))
	}
	return
}

type hostMethod struct {
	recv *Host
	name string
	sig  *types.Signature
}

func (e *Exec) call(caller *frame, callpos token.Pos, fn Value, args []Value) Value {
	switch fn := fn.(type) {
	case *ssa.Function:
		return e.callSSA(caller, callpos, fn, args, nil)
	case *Closure:
		if fn == nil {
			panic(e.goPanic("runtime error: invalid memory address or nil pointer dereference (call of nil func)"))
		}
		return e.callSSA(caller, callpos, fn.fn, args, fn.env)
	case *ssa.Builtin:
		return e.callBuiltin(caller, callpos, fn, args)
	case *hostMethod:
		return e.callHostMethod(caller, fn, args)
	case *nativeFunc:
		return fn.f(e, caller, args)
	}
	panic(e.unsupported("cannot call %T", fn))
}

// nativeFunc is a func value implemented by the engine (e.g. context.CancelFunc).
type nativeFunc struct {
	name string
	f    func(e *Exec, caller *frame, args []Value) Value
}

func (e *Exec) panicString(v Value) string {
	switch v := v.(type) {
	case Iface:
		if v.t == nil {
			return "nil"
		}
		switch x := v.v.(type) {
		case Str:
			if x.IsConcrete() {
				return x.s
			}
			return "<symbolic string>"
		case *Term:
			return x.String()
		case *Host:
			if eo, ok := x.data.(*errObj); ok {
				return eo.msg
			}
		}
		return fmt.Sprintf("(%v) %s", v.t, e.valString(v.v, 0))
	}
	return e.valString(v, 0)
}

// ---- type assertions ----

func (e *Exec) typeAssert(instr *ssa.TypeAssert, itf Iface) Value {
	var ok bool
	var v Value
	if it, isIface := instr.AssertedType.Underlying().(*types.Interface); isIface {
		v = itf
		if itf.t != nil {
			ok = e.prog.implements(itf.t, it)
		}
	} else {
		if itf.t != nil && types.Identical(itf.t, instr.AssertedType) {
			v = itf.v
			ok = true
		}
	}
	if !ok {
		if !instr.CommaOk {
			have := "nil"
			if itf.t != nil {
				have = itf.t.String()
			}
			panic(e.goPanic(fmt.Sprintf("interface conversion: interface is %s, not %s", have, instr.AssertedType)))
		}
		v = e.zero(instr.AssertedType)
	}
	if instr.CommaOk {
		return Tuple{v, e.tt.Bool(ok)}
	}
	return v
}

// specAbort: speculative execution of a branch arm must be abandoned.
type specAbort struct{}

func speculable(in ssa.Instruction) bool {
	switch in := in.(type) {
	case *ssa.BinOp:
		if in.Op == token.QUO || in.Op == token.REM {
			// division is speculable only by a non-zero constant
			c, ok := in.Y.(*ssa.Const)
			if !ok || c.Value == nil {
				return false
			}
			if v, isInt := constant.Int64Val(constant.ToInt(c.Value)); !isInt || v == 0 {
				return false
			}
		}
		return true
	case *ssa.UnOp:
		return in.Op != token.ARROW
	case *ssa.Convert, *ssa.ChangeType, *ssa.Extract, *ssa.Field, *ssa.FieldAddr, *ssa.IndexAddr, *ssa.Index,
		*ssa.Slice, *ssa.MakeInterface, *ssa.ChangeInterface, *ssa.DebugRef, *ssa.Phi:
		return true
	}
	return false
}

// armBlock reports whether b is a speculable arm: single predecessor, only pure instructions, ends in a Jump.
func armBlock(b *ssa.BasicBlock) (join *ssa.BasicBlock, ok bool) {
	if len(b.Preds) != 1 || len(b.Instrs) == 0 || len(b.Instrs) > 24 {
		return nil, false
	}
	last := b.Instrs[len(b.Instrs)-1]
	if _, isJump := last.(*ssa.Jump); !isJump {
		return nil, false
	}
	for _, in := range b.Instrs[:len(b.Instrs)-1] {
		if !speculable(in) {
			return nil, false
		}
	}
	return b.Succs[0], true
}

// tryMergeIf turns a triangle/diamond of pure code guarded by a symbolic condition into ite terms
// instead of forking the path (state merging at the smallest scale).
func (e *Exec) tryMergeIf(fr *frame, instr *ssa.If, c *Term) bool {
	if e.cfg != nil && e.cfg.NoMerge {
		return false
	}
	cur := fr.block
	T, F := cur.Succs[0], cur.Succs[1]
	var join *ssa.BasicBlock
	var armT, armF *ssa.BasicBlock
	jt, okT := armBlock(T)
	jf, okF := armBlock(F)
	switch {
	case okT && okF && jt == jf && jt != T && jt != F:
		join, armT, armF = jt, T, F
	case okT && jt == F:
		join, armT = F, T
	case okF && jf == T:
		join, armF = T, F
	default:
		return false
	}
	// the join block must be entered only through its phis (values of arms are not visible otherwise)
	predT, predF := cur, cur
	if armT != nil {
		predT = armT
	}
	if armF != nil {
		predF = armF
	}
	idxT, idxF := -1, -1
	for i, p := range join.Preds {
		if p == predT && idxT < 0 {
			idxT = i
		} else if p == predF {
			idxF = i
		}
	}
	if predT == predF {
		return false
	}
	if idxT < 0 || idxF < 0 {
		return false
	}
	ok := true
	runArm := func(b *ssa.BasicBlock) {
		if b == nil {
			return
		}
		savedSpec := e.speculating
		e.speculating = true
		defer func() {
			e.speculating = savedSpec
			if r := recover(); r != nil {
				switch r.(type) {
				case specAbort, goPanic:
					ok = false
				default:
					panic(r)
				}
			}
		}()
		for _, in := range b.Instrs[:len(b.Instrs)-1] {
			if _, isPhi := in.(*ssa.Phi); isPhi {
				// single-predecessor block: phi has one edge
				fr.set(in.(*ssa.Phi), fr.get(in.(*ssa.Phi).Edges[0]))
				continue
			}
			e.steps++
			e.visitInstr(fr, in)
		}
	}
	savedPos := fr.pos
	runArm(armT)
	if ok {
		runArm(armF)
	}
	fr.pos = savedPos
	if !ok {
		return false
	}
	// merge the phis of the join block
	var phis []*ssa.Phi
	for _, in := range join.Instrs {
		if phi, isPhi := in.(*ssa.Phi); isPhi {
			phis = append(phis, phi)
		} else {
			break
		}
	}
	vals := make([]Value, len(phis))
	for i, phi := range phis {
		vt := fr.get(phi.Edges[idxT])
		vf := fr.get(phi.Edges[idxF])
		m, mok := e.mergeValsSpec(c, vt, vf)
		if !mok {
			return false
		}
		vals[i] = m
	}
	for i, phi := range phis {
		fr.set(phi, vals[i])
	}
	e.merges++
	fr.prevBlock = predT
	fr.block = join
	fr.skipPhis = true
	return true
}

// mergeValsSpec is mergeVals restricted to values that need no fresh objects.
func (e *Exec) mergeValsSpec(c *Term, a, b Value) (Value, bool) {
	switch a.(type) {
	case *Term, Float, Str, *Agg, Tuple, nil, Ptr, Iface, *Map, *ssa.Function:
		return e.mergeVals(c, a, b)
	case Slice:
		as, bs := a.(Slice), b.(Slice)
		if as.IsNil() && bs.IsNil() {
			return as, true
		}
		if as.obj == bs.obj && as.off == bs.off && as.len == bs.len && as.cap == bs.cap && ptrEq(Ptr{as.obj, as.path}, Ptr{bs.obj, bs.path}) {
			return as, true
		}
		return nil, false
	}
	return nil, false
}
