package main

// Intrinsics: harness primitives (verif*) and environment stubs selected by fully-qualified name.

import (
	"fmt"
	"go/types"
	"strings"

	"golang.org/x/tools/go/ssa"
)

type intrinsicFn func(e *Exec, caller *frame, fn *ssa.Function, args []Value) Value

var intrinsics = map[string]intrinsicFn{}

// packages whose functions are all no-ops returning zero values (logging and metrics)
var noopPackages = map[string]bool{
	"github.com/anacrolix/log": true,
	"log":                      true,
	"expvar":                   true,
	"runtime/pprof":            true,
	"runtime/trace":            true,
	"log/slog":                 true,
}

func (p *Program) intrinsic(fn *ssa.Function, name string) intrinsicFn {
	if v, ok := p.intrinsicMemo.Load(fn); ok {
		if v == nil {
			return nil
		}
		f, _ := v.(intrinsicFn)
		return f
	}
	f := p.findIntrinsic(fn, name)
	if f == nil {
		p.intrinsicMemo.Store(fn, nil)
	} else {
		p.intrinsicMemo.Store(fn, f)
	}
	return f
}

func (p *Program) findIntrinsic(fn *ssa.Function, name string) intrinsicFn {
	if f, ok := intrinsics[name]; ok {
		return f
	}
	// generic instantiations: strip type arguments  e.g. slices.Index[[]int,int] -> slices.Index
	if strings.Contains(name, "[") {
		if f, ok := intrinsics[stripTypeArgs(name)]; ok {
			return f
		}
	}
	pkg := fn.Pkg
	if pkg == nil && fn.Origin() != nil {
		pkg = fn.Origin().Pkg
	}
	if pkg == nil {
		if recv := fn.Signature.Recv(); recv != nil {
			// wrapper/bound method of a type from another package
			t := recv.Type()
			if pt, ok := t.(*types.Pointer); ok {
				t = pt.Elem()
			}
			if nt, ok := t.(*types.Named); ok && nt.Obj().Pkg() != nil {
				if noopPackages[nt.Obj().Pkg().Path()] {
					return noopIntrinsic
				}
			}
		}
		return nil
	}
	path := pkg.Pkg.Path()
	if noopPackages[path] {
		return noopIntrinsic
	}
	if pkg == p.main && fn.Blocks == nil && strings.HasPrefix(fn.Name(), "verif") {
		if f, ok := harnessIntrinsics[fn.Name()]; ok {
			return f
		}
		// typed nondet helpers: verifNondet<Anything> returning a struct/array of scalars
		if strings.HasPrefix(fn.Name(), "verifNondet") {
			return harnessIntrinsics["verifNondetAny"]
		}
		if strings.HasPrefix(fn.Name(), "verifDecode") {
			return harnessIntrinsics["verifDecodeAny"]
		}
	}
	if fn.Name() == "init" && fn.Signature.Recv() == nil {
		return initIntrinsic
	}
	return nil
}

func noopIntrinsic(e *Exec, caller *frame, fn *ssa.Function, args []Value) Value {
	res := fn.Signature.Results()
	switch res.Len() {
	case 0:
		return nil
	case 1:
		// methods returning their receiver type: return the receiver (keeps Logger chains cheap)
		if recv := fn.Signature.Recv(); recv != nil && len(args) > 0 && types.Identical(recv.Type(), res.At(0).Type()) {
			return args[0]
		}
		return e.zero(res.At(0).Type())
	}
	return e.zero(res)
}

// initIntrinsic: package init functions of *other* packages are not run wholesale (see ensureInit).
func initIntrinsic(e *Exec, caller *frame, fn *ssa.Function, args []Value) Value {
	return nil
}

// ---- harness intrinsics ----

var harnessIntrinsics = map[string]intrinsicFn{}

func (e *Exec) freshVar(kind string, w int) *Term {
	if e.summaryDepth > 0 {
		panic(summaryAbort{"nondet in summary"})
	}
	n := e.symCounter[kind]
	e.symCounter[kind] = n + 1
	name := fmt.Sprintf("v_%s_%d", kind, n)
	var t *Term
	if w == 0 {
		t = e.tt.Var(name, BoolSort)
	} else {
		t = e.tt.Var(name, Sort{w})
	}
	e.inputs = append(e.inputs, inputSym{name: name, kind: kind, t: t})
	return t
}

func (e *Exec) nondetOfType(t types.Type, kind string) Value {
	switch u := t.Underlying().(type) {
	case *types.Basic:
		switch {
		case u.Info()&types.IsBoolean != 0:
			return e.freshVar(kind+"b", 0)
		case u.Info()&types.IsInteger != 0:
			return e.freshVar(kind+fmt.Sprint(e.intWidth(u)), e.intWidth(u))
		}
	case *types.Array:
		a := &Agg{elems: make([]Value, u.Len())}
		for i := range a.elems {
			a.elems[i] = e.nondetOfType(u.Elem(), kind)
		}
		return a
	case *types.Struct:
		a := &Agg{elems: make([]Value, u.NumFields())}
		for i := range a.elems {
			a.elems[i] = e.nondetOfType(u.Field(i).Type(), kind)
		}
		return a
	}
	panic(e.unsupported("nondet of type %v", t))
}

func strArg(e *Exec, v Value) string {
	s, ok := v.(Str)
	if !ok || !s.IsConcrete() {
		panic(e.unsupported("intrinsic needs a constant string argument"))
	}
	return s.s
}

func init() {
	h := harnessIntrinsics
	h["verifNondetBool"] = func(e *Exec, c *frame, fn *ssa.Function, a []Value) Value { return e.freshVar("b", 0) }
	h["verifNondetU8"] = func(e *Exec, c *frame, fn *ssa.Function, a []Value) Value { return e.freshVar("u8", 8) }
	h["verifNondetU16"] = func(e *Exec, c *frame, fn *ssa.Function, a []Value) Value { return e.freshVar("u16", 16) }
	h["verifNondetU32"] = func(e *Exec, c *frame, fn *ssa.Function, a []Value) Value { return e.freshVar("u32", 32) }
	h["verifNondetU64"] = func(e *Exec, c *frame, fn *ssa.Function, a []Value) Value { return e.freshVar("u64", 64) }
	h["verifNondetI64"] = func(e *Exec, c *frame, fn *ssa.Function, a []Value) Value { return e.freshVar("i64", 64) }
	h["verifNondetInt"] = func(e *Exec, c *frame, fn *ssa.Function, a []Value) Value { return e.freshVar("int", 64) }
	h["verifNondetAny"] = func(e *Exec, c *frame, fn *ssa.Function, a []Value) Value {
		return e.nondetOfType(fn.Signature.Results().At(0).Type(), "x")
	}
	h["verifFill"] = func(e *Exec, c *frame, fn *ssa.Function, a []Value) Value {
		s := a[0].(Slice)
		if s.len > 0 {
			e.noteWrite(s.obj)
			arr := e.sliceBacking(s)
			for i := 0; i < s.len; i++ {
				arr.elems[s.off+i] = e.freshVar("u8", 8)
			}
		}
		return nil
	}
	h["verifSymString"] = func(e *Exec, c *frame, fn *ssa.Function, a []Value) Value {
		n := int(e.concreteInt(a[0].(*Term), "verifSymString length"))
		bs := make([]*Term, n)
		for i := range bs {
			bs[i] = e.freshVar("u8", 8)
		}
		return e.mkStr(bs)
	}
	h["verifChoice"] = func(e *Exec, c *frame, fn *ssa.Function, a []Value) Value {
		lo := e.concreteInt(a[0].(*Term), "verifChoice lo")
		hi := e.concreteInt(a[1].(*Term), "verifChoice hi")
		if hi < lo {
			panic(pathEnd{"empty verifChoice range"})
		}
		n := int(hi - lo + 1)
		if n > 4096 {
			panic(engineAbort{kind: "bound", reason: "verifChoice range too large"})
		}
		k := e.choose(n, "verifChoice")
		v := lo + int64(k)
		e.inputs = append(e.inputs, inputSym{name: fmt.Sprintf("choice_%d", len(e.inputs)), kind: "choice", t: e.tt.BV(64, uint64(v))})
		return e.tt.BV(64, uint64(v))
	}
	h["verifAssume"] = func(e *Exec, c *frame, fn *ssa.Function, a []Value) Value {
		if e.summaryDepth > 0 {
			panic(summaryAbort{"assume in summary"})
		}
		cond := a[0].(*Term)
		if cond.IsTrue() {
			return nil
		}
		if cond.IsFalse() {
			panic(pathEnd{"assume(false)"})
		}
		if e.pos < len(e.prefix) {
			// replay: assumption was satisfiable when first met
			e.pos++
			e.decisions = append(e.decisions, 0)
			e.addPC(cond)
			return nil
		}
		e.pos++
		r, _ := e.checkSat(cond, nil)
		if r == "unsat" {
			panic(pathEnd{"assumption unsatisfiable"})
		}
		if r == "unknown" {
			e.maybeInfeasible = true
		}
		e.decisions = append(e.decisions, 0)
		e.addPC(cond)
		return nil
	}
	h["verifAssert"] = func(e *Exec, c *frame, fn *ssa.Function, a []Value) Value {
		e.assertHolds(a[0].(*Term), strArg(e, a[1]), c)
		return nil
	}
	h["verifReach"] = func(e *Exec, c *frame, fn *ssa.Function, a []Value) Value {
		if e.summaryDepth > 0 {
			panic(summaryAbort{"reach in summary"})
		}
		e.reached[strArg(e, a[0])] = true
		return nil
	}
	h["verifYield"] = func(e *Exec, c *frame, fn *ssa.Function, a []Value) Value {
		e.yieldPoint(e.curG(c))
		return nil
	}
	h["verifObserve"] = func(e *Exec, c *frame, fn *ssa.Function, a []Value) Value {
		e.observed[strArg(e, a[0])] = e.valString(a[1], 0)
		return nil
	}
	h["verifIsConcrete"] = func(e *Exec, c *frame, fn *ssa.Function, a []Value) Value {
		return e.tt.Bool(e.concreteMode)
	}
	// verifStopPath ends the path here (after a violation that would otherwise make the run diverge)
	h["verifStopPath"] = func(e *Exec, c *frame, fn *ssa.Function, a []Value) Value {
		panic(pathEnd{"stopped by the harness"})
	}
	h["verifFail"] = func(e *Exec, c *frame, fn *ssa.Function, a []Value) Value {
		e.assertHolds(e.tt.False, strArg(e, a[0]), c)
		return nil
	}
	// verifDaemon marks the calling goroutine as one that is expected to stay blocked (e.g. a serve loop)
	h["verifDaemon"] = func(e *Exec, c *frame, fn *ssa.Function, a []Value) Value {
		e.curG(c).daemon = true
		return nil
	}
	// verifDormant parks the calling goroutine (an environment action, e.g. a datagram arriving) until
	// the scheduler picks it at a choice point (preemption, recursive lock) or, at the latest, when
	// nothing else can run.
	h["verifDormant"] = func(e *Exec, c *frame, fn *ssa.Function, a []Value) Value {
		g := e.curG(c)
		g.dormant = true
		g.daemon = true
		e.blockUntil(g, "dormant", func() bool { return !g.dormant })
		g.daemon = false
		return nil
	}
	h["verifNumGoroutinesBlocked"] = func(e *Exec, c *frame, fn *ssa.Function, a []Value) Value {
		n := 0
		for _, g := range e.sched.gs {
			if g.status == gBlocked && !g.daemon {
				n++
			}
		}
		return e.tt.BV(64, uint64(n))
	}
}

// stripTypeArgs removes generic type-argument lists: "(unique.Handle[T]).Value[T]" -> "(unique.Handle).Value".
func stripTypeArgs(name string) string {
	var sb strings.Builder
	depth := 0
	for i := 0; i < len(name); i++ {
		c := name[i]
		if c == '[' {
			isIdent := i > 0 && (name[i-1] == '_' || name[i-1] >= 'a' && name[i-1] <= 'z' || name[i-1] >= 'A' && name[i-1] <= 'Z' || name[i-1] >= '0' && name[i-1] <= '9')
			if depth > 0 || isIdent {
				depth++
				continue
			}
		}
		if c == ']' && depth > 0 {
			depth--
			continue
		}
		if depth == 0 {
			sb.WriteByte(c)
		}
	}
	return sb.String()
}
