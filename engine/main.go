package main

import (
	"encoding/json"
	"flag"
	"fmt"
	"os"
	"path/filepath"
	"runtime/pprof"
	"sort"
	"strconv"
	"strings"
)

func main() {
	if len(os.Args) < 2 {
		fmt.Fprintln(os.Stderr, "usage: symgo run|check ...")
		os.Exit(2)
	}
	switch os.Args[1] {
	case "run":
		cmdRun(os.Args[2:])
	case "check":
		cmdCheck(os.Args[2:])
	case "replay":
		cmdReplay(os.Args[2:])
	case "version":
		fmt.Println("symgo (go/ssa symbolic executor) for /verif")
	case "ssafacts":
		cmdSSAFacts(os.Args[2:])
	default:
		fmt.Fprintln(os.Stderr, "unknown command", os.Args[1])
		os.Exit(2)
	}
}

func parsePrefix(s string) []int64 {
	if s == "" {
		return nil
	}
	var out []int64
	for _, p := range strings.Split(s, ",") {
		v, err := strconv.ParseInt(strings.TrimSpace(p), 10, 64)
		if err == nil {
			out = append(out, v)
		}
	}
	return out
}

// cmdRun: explore one entry point; prints a JSON summary. Developer-facing.
func cmdRun(args []string) {
	fs := flag.NewFlagSet("run", flag.ExitOnError)
	repo := fs.String("repo", "/repo", "repository root")
	pkg := fs.String("pkg", ".", "package directory relative to repo")
	harness := fs.String("harness", "", "comma-separated harness files")
	entry := fs.String("entry", "", "entry function")
	workers := fs.Int("workers", 8, "workers")
	maxSteps := fs.Int("maxsteps", 2000000, "max steps per path")
	maxPaths := fs.Int("maxpaths", 0, "max paths")
	timeout := fs.Int("timeout", 600, "time budget (s)")
	solverMs := fs.Int("solverms", 10000, "per-query solver timeout (ms)")
	trace := fs.Bool("trace", false, "trace instructions")
	solverLog := fs.String("solverlog", "", "solver log prefix")
	mapAll := fs.Bool("maporder", false, "explore all map iteration orders (small maps)")
	schedAll := fs.Bool("schedall", false, "explore all scheduling choices at blocking points")
	preempt := fs.Int("preempt", 0, "preemption bound")
	maxSched := fs.Int("maxsched", 0, "scheduling point bound")
	schedYield := fs.Bool("schedyield", false, "explore all choices at explicit yields only")
	summarize := fs.String("summarize", "", "comma-separated function names to summarise")
	prefix := fs.String("prefix", "", "decision prefix")
	stopv := fs.Bool("stopv", false, "stop on first violation")
	allowBlocked := fs.Bool("allowblocked", false, "blocked goroutines at quiescence are not a violation")
	maxConc := fs.Int("maxconc", 64, "concretisation cap")
	full := fs.Bool("full", false, "print full result")
	noMerge := fs.Bool("nomerge", false, "disable if-merging")
	hashT := fs.Bool("hashtransparent", false, "model sha1 as identity")
	cpuprof := fs.String("cpuprofile", "", "write a CPU profile")
	fs.Parse(args)
	files := map[string][]byte{}
	pkgName := ""
	for _, h := range strings.Split(*harness, ",") {
		b, rerr := os.ReadFile(h)
		if rerr != nil {
			fmt.Println("LOAD ERROR:", rerr)
			os.Exit(3)
		}
		files[filepath.Base(h)] = b
		pkgName = pkgNameOf(b)
	}
	files["zz_verif_rt.go"] = []byte(strings.Replace(rtTemplate, "PKGNAME", pkgName, 1))
	prog, err := LoadOverlay(*repo, *pkg, files)
	if err != nil {
		fmt.Println("LOAD ERROR:", err)
		os.Exit(3)
	}
	for _, s := range strings.Split(*summarize, ",") {
		if s != "" {
			prog.summarize[s] = true
		}
	}
	for _, s := range defaultSummaries {
		prog.summarize[s] = true
	}
	cfg := &RunConfig{Entry: *entry, MaxSteps: *maxSteps, MaxPaths: *maxPaths, Workers: *workers, TimeoutS: *timeout,
		SolverMs: *solverMs, Trace: *trace, SolverLog: *solverLog, MapOrderAll: *mapAll, MapOrderMax: 3, SchedAll: *schedAll, SchedYield: *schedYield, MaxSchedPoints: *maxSched,
		Preempt: *preempt, Prefix: parsePrefix(*prefix), StopOnViolation: *stopv, AllowBlocked: *allowBlocked, MaxConcretize: *maxConc, NoMerge: *noMerge, HashTransparent: *hashT}
	if prog.entryFunc(*entry) == nil {
		fmt.Println("no such entry function:", *entry)
		os.Exit(3)
	}
	if *cpuprof != "" {
		f, _ := os.Create(*cpuprof)
		pprof.StartCPUProfile(f)
		defer pprof.StopCPUProfile()
	}
	res := Explore(prog, cfg)
	printResult(res, *full)
}

func printResult(res *RunResult, full bool) {
	fmt.Printf("entry=%s paths=%d completed=%d aborted=%v steps=%d decisions=%d queries=%d (hard %d, unknown %d) solver=%.2fs wall=%.2fs asserts=%d/%d summaries=%d/%d maybeInf=%d\n",
		res.Entry, res.Paths, res.Completed, res.Aborted, res.Steps, res.Decisions, res.Queries, res.HardQueries, res.Unknowns,
		res.SolverTime.Seconds(), res.Wall.Seconds(), res.AssertsOK, res.AssertsChk, res.SummariesOK, res.SummariesFail, res.MaybeInf)
	if res.Incomplete != "" {
		fmt.Println("INCOMPLETE:", res.Incomplete)
	}
	var tags []string
	for t, n := range res.Reached {
		tags = append(tags, fmt.Sprintf("%s:%d", t, n))
	}
	sort.Strings(tags)
	fmt.Println("reached:", strings.Join(tags, " "))
	for _, s := range res.AbortSamples {
		fmt.Println("ABORT:", s)
	}
	seen := map[string]int{}
	for _, v := range res.Violations {
		key := v.Kind + "|" + v.Label + "|" + v.Where
		seen[key]++
		if seen[key] > 1 {
			continue
		}
		fmt.Printf("VIOLATION kind=%s label=%q where=%s decisions=%v\n", v.Kind, v.Label, v.Where, v.Decisions)
		if len(v.Inputs) > 0 && len(v.Inputs) <= 80 {
			var parts []string
			for _, in := range v.Inputs {
				parts = append(parts, fmt.Sprintf("%s=%#x", in.Name, in.Value))
			}
			fmt.Println("   inputs:", strings.Join(parts, " "))
		}
		if len(v.Observed) > 0 {
			fmt.Println("   observed:", v.Observed)
		}
		if v.Stack != "" {
			fmt.Print(v.Stack)
		}
		if os.Getenv("VERIF_SCHEDULE") != "" {
			for _, l := range v.Schedule {
				fmt.Println("   sched:", l)
			}
		}
	}
	for k, n := range seen {
		if n > 1 {
			fmt.Printf("  (%d× %s)\n", n, k)
		}
	}
	if full {
		b, _ := json.MarshalIndent(res.Funcs, "", " ")
		fmt.Println(string(b))
	}
}

var defaultSummaries = []string{
	"(github.com/anacrolix/dht/v2/int160.T).Cmp",
	"(*github.com/anacrolix/dht/v2/int160.T).IsZero",
	"(*github.com/anacrolix/dht/v2/int160.T).BitLen",
}
