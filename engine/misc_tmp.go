package main


type ctxObj struct{}

func (e *Exec) ctxMethod(caller *frame, c *ctxObj, name string, args []Value) Value {
	panic(e.unsupported("ctx method"))
}
