package main

func cmdCheck(args []string)    {}
func cmdSSAFacts(args []string) {}

type ctxObj struct{}

func (e *Exec) ctxMethod(caller *frame, c *ctxObj, name string, args []Value) Value {
	panic(e.unsupported("ctx method"))
}
