package main

// Native replay: a counterexample found by the engine is turned into an ordinary Go test against the
// real build. The harness sources are compiled natively (through `go test -overlay`, nothing is written
// to /repo) together with a runtime that gives bodies to the verif* intrinsics: nondeterministic inputs
// pop the values of the solver's model in call order, verifAssert records failing labels, verifAssume
// ends the run when the model relied on an abstraction (an uninterpreted function's freedom).

import (
	"context"
	"encoding/json"
	"fmt"
	"os"
	"os/exec"
	"path/filepath"
	"strings"
	"time"
)

const nativeRT = `package PKGNAME

import (
	"encoding/json"
	"fmt"
	"os"
	"runtime"
	"strings"
	"time"

	"github.com/anacrolix/torrent/bencode"
)

type verifInputRec struct {
	Name  string ` + "`json:\"name\"`" + `
	Kind  string ` + "`json:\"kind\"`" + `
	Value uint64 ` + "`json:\"value\"`" + `
	W     int    ` + "`json:\"w\"`" + `
}

type verifAssumeFailed struct{}
type verifStopped struct{}

var (
	verifQ         = map[string][]uint64{}
	verifFailedLbl []string
	verifUnderflow bool
)

func verifLoad(path string) {
	b, err := os.ReadFile(path)
	if err != nil {
		panic(err)
	}
	var in struct {
		Inputs []verifInputRec ` + "`json:\"inputs\"`" + `
	}
	if err := json.Unmarshal(b, &in); err != nil {
		panic(err)
	}
	for _, r := range in.Inputs {
		verifQ[r.Kind] = append(verifQ[r.Kind], r.Value)
	}
}

func verifPop(kind string) uint64 {
	q := verifQ[kind]
	if len(q) == 0 {
		verifUnderflow = true
		return 0
	}
	verifQ[kind] = q[1:]
	return q[0]
}

func verifNondetBool() bool   { return verifPop("b") != 0 }
func verifNondetU8() uint8     { return uint8(verifPop("u8")) }
func verifNondetU16() uint16   { return uint16(verifPop("u16")) }
func verifNondetU32() uint32   { return uint32(verifPop("u32")) }
func verifNondetU64() uint64   { return verifPop("u64") }
func verifNondetI64() int64    { return int64(verifPop("i64")) }
func verifNondetInt() int      { return int(int64(verifPop("int"))) }
func verifFill(b []byte) {
	for i := range b {
		b[i] = byte(verifPop("u8"))
	}
}
func verifSymString(n int) string {
	b := make([]byte, n)
	verifFill(b)
	return string(b)
}
func verifChoice(lo, hi int) int { return int(int64(verifPop("choice"))) }
func verifAssume(c bool) {
	if !c {
		panic(verifAssumeFailed{})
	}
}
func verifAssert(c bool, label string) {
	if !c {
		verifFailedLbl = append(verifFailedLbl, label)
	}
}
func verifFail(label string)         { verifFailedLbl = append(verifFailedLbl, label) }
func verifReach(tag string)          {}
func verifYield()                    { runtime.Gosched() }
func verifObserve(key string, v any) {}
func verifDaemon()                   {}
func verifDormant()                  { runtime.Gosched() }
func verifNumGoroutinesBlocked() int { return 0 }
func verifEncode(v any, n int) []byte { return bencode.MustMarshal(v) }
func verifEncodeWithout(v any, n int, keys string) []byte {
	var d map[string]interface{}
	if err := bencode.Unmarshal(bencode.MustMarshal(v), &d); err != nil {
		panic(err)
	}
	for _, k := range strings.Split(keys, ",") {
		delete(d, k)
	}
	return bencode.MustMarshal(d)
}
func verifEventCount(kind string) int { return 0 }
func verifEvent(kind string)         {}
func verifQuiesce()                  { time.Sleep(30 * time.Millisecond) }
func verifFireTimers() int           { return 0 }
func verifArmedTimers() int          { return 0 }
func verifLimiterAlwaysGrants()      {}
func verifFreezeClock(on bool)       {}
func verifMapOrders(all bool)        {}
func verifStopPath()                 { panic(verifStopped{}) }

func verifReport(r any) {
	switch x := r.(type) {
	case nil, verifStopped:
	case verifAssumeFailed:
		fmt.Println("VERIF-ASSUME-FAILED")
		return
	default:
		fmt.Printf("VERIF-PANIC %v\n", x)
	}
	if verifUnderflow {
		fmt.Println("VERIF-INPUT-UNDERFLOW")
	}
	for _, l := range verifFailedLbl {
		fmt.Printf("VERIF-FAILED %s\n", l)
	}
	fmt.Println("VERIF-DONE")
}
`

const nativeTest = `package PKGNAME

import (
	"os"
	"testing"
)

func TestVerifReplay(t *testing.T) {
	verifLoad(os.Getenv("VERIF_INPUTS"))
	defer func() { verifReport(recover()) }()
	ENTRYNAME()
}
`

type nativeResult struct {
	Ran        bool   `json:"ran"`
	Reproduced bool   `json:"reproduced"`
	Outcome    string `json:"outcome"`
	Cmd        string `json:"cmd,omitempty"`
	Output     string `json:"output,omitempty"`
}

// nativeReplay compiles the harness natively against repo and runs the entry with the violation's inputs.
func nativeReplay(repo, verifDir string, ps PkgSpec, v *Violation, dir string) nativeResult {
	res := nativeResult{}
	os.MkdirAll(dir, 0o755)
	pkgAbs := filepath.Join(repo, ps.Dir)
	overlay := map[string]string{}
	pkgName := ""
	skip := map[string]bool{}
	for _, s := range ps.NativeSkip {
		skip[s] = true
	}
	for _, h := range append(append([]string{}, ps.Harness...), ps.NativeExtra...) {
		if skip[h] {
			continue
		}
		src := filepath.Join(verifDir, "harness", h)
		b, err := os.ReadFile(src)
		if err != nil {
			res.Outcome = "cannot read harness: " + err.Error()
			return res
		}
		pkgName = pkgNameOf(b)
		overlay[filepath.Join(pkgAbs, filepath.Base(h))] = src
	}
	rt := filepath.Join(dir, "zz_verif_rt_native.go")
	os.WriteFile(rt, []byte(strings.Replace(nativeRT, "PKGNAME", pkgName, 1)), 0o644)
	overlay[filepath.Join(pkgAbs, "zz_verif_rt_native.go")] = rt
	tf := filepath.Join(dir, "zz_verif_replay_test.go")
	os.WriteFile(tf, []byte(strings.Replace(strings.Replace(nativeTest, "PKGNAME", pkgName, 1), "ENTRYNAME", v.Entry, 1)), 0o644)
	overlay[filepath.Join(pkgAbs, "zz_verif_replay_test.go")] = tf
	ob, _ := json.MarshalIndent(map[string]any{"Replace": overlay}, "", " ")
	of := filepath.Join(dir, "overlay.json")
	os.WriteFile(of, ob, 0o644)
	ib, _ := json.MarshalIndent(map[string]any{"entry": v.Entry, "inputs": v.Inputs}, "", " ")
	inf := filepath.Join(dir, "inputs.json")
	os.WriteFile(inf, ib, 0o644)
	pkgPat := "./" + ps.Dir
	if ps.Dir == "" || ps.Dir == "." {
		pkgPat = "."
	}
	ctx, cancel := context.WithTimeout(context.Background(), 180*time.Second)
	defer cancel()
	cmd := exec.CommandContext(ctx, "go", "test", "-count=1", "-vet=off", "-overlay", of, "-run", "^TestVerifReplay$", "-v", pkgPat)
	cmd.Dir = repo
	cmd.Env = append(os.Environ(), "GOFLAGS=-mod=mod", "GOPROXY=off", "GOSUMDB=off", "GOTOOLCHAIN=local", "VERIF_INPUTS="+inf)
	out, err := cmd.CombinedOutput()
	res.Ran = true
	res.Cmd = fmt.Sprintf("cd %s && VERIF_INPUTS=%s go test -count=1 -vet=off -overlay %s -run '^TestVerifReplay$' -v %s", repo, inf, of, pkgPat)
	txt := string(out)
	if len(txt) > 4000 {
		txt = txt[len(txt)-4000:]
	}
	res.Output = txt
	so := string(out)
	switch {
	case strings.Contains(so, "VERIF-ASSUME-FAILED"):
		res.Outcome = "assumption false natively: the model relied on an abstraction (uninterpreted function or stub)"
	case v.Kind == "assert" && strings.Contains(so, "VERIF-FAILED "+v.Label):
		res.Reproduced = true
		res.Outcome = "the same assertion fails in the native build"
	case v.Kind == "panic" && (strings.Contains(so, "VERIF-PANIC") || strings.Contains(so, "panic:")):
		res.Reproduced = true
		res.Outcome = "the native build panics"
	case strings.Contains(so, "VERIF-DONE"):
		res.Outcome = "native run completed without that failure"
	default:
		res.Outcome = "native run did not complete"
		if err != nil {
			res.Outcome += ": " + err.Error()
		}
	}
	return res
}
