package main

import (
	"fmt"
	"go/constant"
	"go/token"
	"go/types"
	"math"

	"golang.org/x/tools/go/ssa"
)

func constantBool(c *ssa.Const) bool     { return constant.BoolVal(c.Value) }
func constantString(c *ssa.Const) string { return constant.StringVal(c.Value) }

// ---- memory ----

// cellAt navigates an object's content along path and returns the parent aggregate and index, so the
// cell can be read or replaced. For the empty path the object itself is the cell.
func (e *Exec) navigate(obj *Object, path []int) (parent *Agg, idx int) {
	if len(path) == 0 {
		return nil, 0
	}
	cur, ok := obj.v.(*Agg)
	if !ok {
		panic(engineAbort{kind: "internal", reason: fmt.Sprintf("navigate: object %d (%s) content is %T, path %v", obj.id, obj.label, obj.v, path)})
	}
	for i := 0; i < len(path)-1; i++ {
		if path[i] >= len(cur.elems) {
			panic(engineAbort{kind: "internal", reason: fmt.Sprintf("navigate: index %d out of %d", path[i], len(cur.elems))})
		}
		nx, ok := cur.elems[path[i]].(*Agg)
		if !ok {
			panic(engineAbort{kind: "internal", reason: fmt.Sprintf("navigate: element is %T at %v of %v", cur.elems[path[i]], i, path)})
		}
		cur = nx
	}
	last := path[len(path)-1]
	if last >= len(cur.elems) || last < 0 {
		panic(engineAbort{kind: "internal", reason: fmt.Sprintf("navigate: last index %d out of %d (obj %s)", last, len(cur.elems), obj.label)})
	}
	return cur, last
}

func (e *Exec) loadRaw(p Ptr) Value {
	if p.IsNil() {
		panic(e.goPanic("runtime error: invalid memory address or nil pointer dereference"))
	}
	if len(p.path) == 0 {
		return p.obj.v
	}
	par, i := e.navigate(p.obj, p.path)
	return par.elems[i]
}

func (e *Exec) load(p Ptr) Value {
	return e.copyVal(e.loadRaw(p))
}

func (e *Exec) store(p Ptr, v Value) {
	if p.IsNil() {
		panic(e.goPanic("runtime error: invalid memory address or nil pointer dereference"))
	}
	e.noteWrite(p.obj)
	v = e.copyVal(v)
	if len(p.path) == 0 {
		p.obj.v = v
		return
	}
	par, i := e.navigate(p.obj, p.path)
	par.elems[i] = v
}

// noteWrite is the purity check used by pure-call summaries.
func (e *Exec) noteWrite(obj *Object) {
	if e.summaryDepth > 0 && obj.birth <= e.summaryMark {
		panic(summaryAbort{"write to pre-existing object " + obj.label})
	}
	if obj.frozen {
		panic(engineAbort{kind: "internal", reason: "write to frozen object " + obj.label})
	}
}

func (e *Exec) arrayLenAt(obj *Object, path []int) int {
	v := e.loadRaw(Ptr{obj: obj, path: path})
	a, ok := v.(*Agg)
	if !ok {
		panic(engineAbort{kind: "internal", reason: "arrayLenAt: not an aggregate"})
	}
	return len(a.elems)
}

func (e *Exec) makeSlice(et types.Type, ln, cp int) Slice {
	arr := &Agg{elems: make([]Value, cp)}
	if cp > 0 {
		z := e.zero(et)
		arr.elems[0] = z
		for i := 1; i < cp; i++ {
			arr.elems[i] = e.copyVal(z)
		}
	}
	obj := e.newObject(types.NewArray(et, int64(cp)), arr, "makeslice")
	return Slice{obj: obj, off: 0, len: ln, cap: cp}
}

func (e *Exec) sliceElems(s Slice) []Value {
	if s.IsNil() || s.len == 0 {
		return nil
	}
	arr := e.loadRaw(Ptr{obj: s.obj, path: s.path}).(*Agg)
	return arr.elems[s.off : s.off+s.len]
}

func (e *Exec) sliceBacking(s Slice) *Agg {
	return e.loadRaw(Ptr{obj: s.obj, path: s.path}).(*Agg)
}

// byteTerms returns the elements of a []byte slice as terms.
func (e *Exec) byteTerms(s Slice) []*Term {
	el := e.sliceElems(s)
	out := make([]*Term, len(el))
	for i, x := range el {
		out[i] = x.(*Term)
	}
	return out
}

func (e *Exec) bytesToSlice(bs []*Term) Slice {
	arr := &Agg{elems: make([]Value, len(bs))}
	for i, b := range bs {
		arr.elems[i] = b
	}
	obj := e.newObject(types.NewArray(types.Typ[types.Byte], int64(len(bs))), arr, "bytes")
	return Slice{obj: obj, len: len(bs), cap: len(bs)}
}

// concreteInt returns the value of an integer term, concretising it through the solver when symbolic.
func (e *Exec) concreteInt(t *Term, what string) int64 {
	if t.IsConst() {
		return t.ConstS()
	}
	return e.concretize(t, what)
}

func (e *Exec) indexAddr(fr *frame, instr *ssa.IndexAddr) Value {
	x := fr.get(instr.X)
	idxT := fr.get(instr.Index).(*Term)
	switch x := x.(type) {
	case Slice:
		i := e.boundedIndex(idxT, x.len)
		return Ptr{obj: x.obj, path: appendPath(x.path, x.off+i)}
	case Ptr:
		if x.IsNil() {
			panic(e.goPanic("runtime error: invalid memory address or nil pointer dereference"))
		}
		n := int(deref(instr.X.Type()).Underlying().(*types.Array).Len())
		i := e.boundedIndex(idxT, n)
		return Ptr{obj: x.obj, path: appendPath(x.path, i)}
	}
	panic(e.unsupported("IndexAddr on %T", x))
}

// boundedIndex checks 0 <= idx < n (panic edge explored when feasible) and returns a concrete index.
func (e *Exec) boundedIndex(idx *Term, n int) int {
	if idx.IsConst() {
		i := idx.ConstS()
		if i < 0 || i >= int64(n) {
			panic(e.goPanic(fmt.Sprintf("runtime error: index out of range [%d] with length %d", i, n)))
		}
		return int(i)
	}
	w := idx.W()
	inRange := e.tt.Cmp(OpULt, idx, e.tt.BV(w, uint64(n)))
	if n == 0 {
		inRange = e.tt.False
	}
	if !e.branch(inRange) {
		panic(e.goPanic(fmt.Sprintf("runtime error: index out of range [symbolic] with length %d", n)))
	}
	return int(e.concretize(idx, "index"))
}

func (e *Exec) index(fr *frame, instr *ssa.Index) Value {
	x := fr.get(instr.X)
	idxT := fr.get(instr.Index).(*Term)
	switch x := x.(type) {
	case *Agg:
		if idxT.IsConst() {
			i := e.boundedIndex(idxT, len(x.elems))
			return x.elems[i]
		}
		// symbolic index into an array value: ite chain when elements are scalars
		return e.symbolicSelect(x.elems, idxT)
	case Str:
		bs := e.strBytes(x)
		if idxT.IsConst() {
			i := e.boundedIndex(idxT, len(bs))
			return bs[i]
		}
		vals := make([]Value, len(bs))
		for i, b := range bs {
			vals[i] = b
		}
		return e.symbolicSelect(vals, idxT)
	}
	panic(e.unsupported("Index on %T", x))
}

func (e *Exec) symbolicSelect(elems []Value, idx *Term) Value {
	n := len(elems)
	w := idx.W()
	inRange := e.tt.Cmp(OpULt, idx, e.tt.BV(w, uint64(n)))
	if n == 0 {
		inRange = e.tt.False
	}
	if !e.branch(inRange) {
		panic(e.goPanic(fmt.Sprintf("runtime error: index out of range [symbolic] with length %d", n)))
	}
	allTerms := n <= 64
	for _, x := range elems {
		if _, ok := x.(*Term); !ok {
			allTerms = false
			break
		}
	}
	if allTerms {
		res := elems[n-1].(*Term)
		for i := n - 2; i >= 0; i-- {
			res = e.tt.Ite(e.tt.Eq(idx, e.tt.BV(w, uint64(i))), elems[i].(*Term), res)
		}
		return res
	}
	i := e.concretize(idx, "index")
	return elems[i]
}

func (e *Exec) sliceOp(fr *frame, instr *ssa.Slice) Value {
	x := fr.get(instr.X)
	get := func(v ssa.Value, def int) int {
		if v == nil {
			return def
		}
		return int(e.concreteInt(fr.get(v).(*Term), "slice bound"))
	}
	switch x := x.(type) {
	case Str:
		n := x.Len()
		lo := get(instr.Low, 0)
		hi := get(instr.High, n)
		if lo < 0 || hi < lo || hi > n {
			panic(e.goPanic(fmt.Sprintf("runtime error: slice bounds out of range [%d:%d] with length %d", lo, hi, n)))
		}
		if x.IsConcrete() {
			return Str{s: x.s[lo:hi]}
		}
		return e.mkStr(x.sym[lo:hi])
	case Slice:
		lo := get(instr.Low, 0)
		hi := get(instr.High, x.len)
		mx := get(instr.Max, x.cap)
		if lo < 0 || hi < lo || mx < hi || mx > x.cap {
			panic(e.goPanic(fmt.Sprintf("runtime error: slice bounds out of range [%d:%d:%d] with capacity %d", lo, hi, mx, x.cap)))
		}
		if x.IsNil() {
			return Slice{}
		}
		return Slice{obj: x.obj, path: x.path, off: x.off + lo, len: hi - lo, cap: mx - lo}
	case Ptr:
		if x.IsNil() {
			panic(e.goPanic("runtime error: invalid memory address or nil pointer dereference"))
		}
		n := int(deref(instr.X.Type()).Underlying().(*types.Array).Len())
		lo := get(instr.Low, 0)
		hi := get(instr.High, n)
		mx := get(instr.Max, n)
		if lo < 0 || hi < lo || mx < hi || mx > n {
			panic(e.goPanic(fmt.Sprintf("runtime error: slice bounds out of range [%d:%d:%d] with capacity %d", lo, hi, mx, n)))
		}
		return Slice{obj: x.obj, path: x.path, off: lo, len: hi - lo, cap: mx - lo}
	}
	panic(e.unsupported("Slice on %T", x))
}

// ---- unary / binary operators ----

func (e *Exec) unop(fr *frame, instr *ssa.UnOp, x Value) Value {
	switch instr.Op {
	case token.MUL: // load
		return e.load(x.(Ptr))
	case token.ARROW:
		v, ok := e.chanRecv(fr, x.(*Chan))
		if instr.CommaOk {
			return Tuple{v, e.tt.Bool(ok)}
		}
		return v
	case token.NOT:
		return e.tt.Not(x.(*Term))
	case token.SUB:
		switch x := x.(type) {
		case *Term:
			return e.tt.Neg(x)
		case Float:
			return Float{-x.f}
		}
	case token.XOR:
		return e.tt.BvNot(x.(*Term))
	}
	panic(e.unsupported("unop %v on %T", instr.Op, x))
}

func (e *Exec) binop(op token.Token, t types.Type, x, y Value) Value {
	switch xv := x.(type) {
	case *Term:
		yv, ok := y.(*Term)
		if !ok {
			panic(e.unsupported("binop %v term vs %T", op, y))
		}
		if xv.IsBool() {
			switch op {
			case token.EQL:
				return e.tt.Eq(xv, yv)
			case token.NEQ:
				return e.tt.Not(e.tt.Eq(xv, yv))
			case token.AND, token.LAND:
				return e.tt.And(xv, yv)
			case token.OR, token.LOR:
				return e.tt.Or(xv, yv)
			}
			panic(e.unsupported("bool binop %v", op))
		}
		b := basicOf(t)
		if b == nil {
			panic(e.unsupported("int binop on type %v", t))
		}
		signed := isSigned(b)
		w := xv.W()
		if op == token.SHL || op == token.SHR {
			// shift count may have another width; Go: count is unsigned (or non-negative signed)
			if yv.W() != w {
				if yv.W() > w {
					// huge counts saturate: if any high bit set the result is 0 / sign fill
					hi := e.tt.Extract(yv, yv.W()-1, w)
					lo := e.tt.Extract(yv, w-1, 0)
					big := e.tt.Not(e.tt.Eq(hi, e.tt.BV(yv.W()-w, 0)))
					yv = e.tt.Ite(big, e.tt.BV(w, uint64(w)), lo)
				} else {
					yv = e.tt.ZExt(yv, w)
				}
			}
			if op == token.SHL {
				return e.tt.Bin(OpShl, xv, yv)
			}
			if signed {
				return e.tt.Bin(OpAShr, xv, yv)
			}
			return e.tt.Bin(OpLShr, xv, yv)
		}
		if yv.W() != w {
			panic(engineAbort{kind: "internal", reason: fmt.Sprintf("binop %v width mismatch %d vs %d (type %v)", op, w, yv.W(), t)})
		}
		switch op {
		case token.ADD:
			return e.tt.Bin(OpAdd, xv, yv)
		case token.SUB:
			return e.tt.Bin(OpSub, xv, yv)
		case token.MUL:
			return e.tt.Bin(OpMul, xv, yv)
		case token.QUO, token.REM:
			zero := e.tt.Eq(yv, e.tt.BV(w, 0))
			if e.branch(zero) {
				panic(e.goPanic("runtime error: integer divide by zero"))
			}
			if signed {
				if op == token.QUO {
					if r := e.cancelScaledDiv(xv, yv); r != nil {
						return r
					}
					return e.tt.Bin(OpSDiv, xv, yv)
				}
				return e.tt.Bin(OpSRem, xv, yv)
			}
			if op == token.QUO {
				return e.tt.Bin(OpUDiv, xv, yv)
			}
			return e.tt.Bin(OpURem, xv, yv)
		case token.AND:
			return e.tt.Bin(OpBvAnd, xv, yv)
		case token.OR:
			return e.tt.Bin(OpBvOr, xv, yv)
		case token.XOR:
			return e.tt.Bin(OpBvXor, xv, yv)
		case token.AND_NOT:
			return e.tt.Bin(OpBvAnd, xv, e.tt.BvNot(yv))
		case token.EQL:
			return e.tt.Eq(xv, yv)
		case token.NEQ:
			return e.tt.Not(e.tt.Eq(xv, yv))
		case token.LSS:
			if signed {
				return e.tt.Cmp(OpSLt, xv, yv)
			}
			return e.tt.Cmp(OpULt, xv, yv)
		case token.LEQ:
			if signed {
				return e.tt.Cmp(OpSLe, xv, yv)
			}
			return e.tt.Cmp(OpULe, xv, yv)
		case token.GTR:
			if signed {
				return e.tt.Cmp(OpSLt, yv, xv)
			}
			return e.tt.Cmp(OpULt, yv, xv)
		case token.GEQ:
			if signed {
				return e.tt.Cmp(OpSLe, yv, xv)
			}
			return e.tt.Cmp(OpULe, yv, xv)
		}
	case Float:
		yv := y.(Float)
		switch op {
		case token.ADD:
			return Float{xv.f + yv.f}
		case token.SUB:
			return Float{xv.f - yv.f}
		case token.MUL:
			return Float{xv.f * yv.f}
		case token.QUO:
			return Float{xv.f / yv.f}
		case token.EQL:
			return e.tt.Bool(xv.f == yv.f)
		case token.NEQ:
			return e.tt.Bool(xv.f != yv.f)
		case token.LSS:
			return e.tt.Bool(xv.f < yv.f)
		case token.LEQ:
			return e.tt.Bool(xv.f <= yv.f)
		case token.GTR:
			return e.tt.Bool(xv.f > yv.f)
		case token.GEQ:
			return e.tt.Bool(xv.f >= yv.f)
		}
	case Str:
		yv := y.(Str)
		switch op {
		case token.ADD:
			if xv.IsConcrete() && yv.IsConcrete() {
				return Str{s: xv.s + yv.s}
			}
			return e.mkStr(append(append([]*Term{}, e.strBytes(xv)...), e.strBytes(yv)...))
		case token.EQL:
			return e.strEq(xv, yv)
		case token.NEQ:
			return e.tt.Not(e.strEq(xv, yv))
		case token.LSS:
			return e.strLess(xv, yv)
		case token.GTR:
			return e.strLess(yv, xv)
		case token.LEQ:
			return e.tt.Not(e.strLess(yv, xv))
		case token.GEQ:
			return e.tt.Not(e.strLess(xv, yv))
		}
	}
	switch op {
	case token.EQL:
		return e.equalVals(t, x, y)
	case token.NEQ:
		return e.tt.Not(e.equalVals(t, x, y))
	}
	panic(e.unsupported("binop %v on %T, %T", op, x, y))
}

// ---- conversions ----

func (e *Exec) conv(tDst, tSrc types.Type, x Value) Value {
	ud := tDst.Underlying()
	us := tSrc.Underlying()
	switch ud := ud.(type) {
	case *types.Basic:
		switch {
		case ud.Info()&types.IsInteger != 0:
			switch xv := x.(type) {
			case *Term:
				sb := us.(*types.Basic)
				w := e.intWidth(ud)
				if xv.W() == w {
					return xv
				}
				if xv.W() > w {
					return e.tt.Extract(xv, w-1, 0)
				}
				if isSigned(sb) {
					return e.tt.SExt(xv, w)
				}
				return e.tt.ZExt(xv, w)
			case Float:
				w := e.intWidth(ud)
				if isSigned(ud) {
					return e.tt.BV(w, uint64(int64(xv.f)))
				}
				return e.tt.BV(w, uint64(xv.f))
			}
		case ud.Info()&types.IsFloat != 0:
			switch xv := x.(type) {
			case Float:
				if ud.Kind() == types.Float32 {
					return Float{float64(float32(xv.f))}
				}
				return xv
			case *Term:
				if !xv.IsConst() {
					panic(e.unsupported("conversion of symbolic integer to float"))
				}
				if isSigned(us.(*types.Basic)) {
					return Float{float64(xv.ConstS())}
				}
				return Float{float64(xv.ConstU())}
			}
		case ud.Info()&types.IsString != 0:
			switch xv := x.(type) {
			case Str:
				return xv
			case Slice: // []byte or []rune -> string
				et := us.(*types.Slice).Elem().Underlying().(*types.Basic)
				if et.Kind() == types.Byte || et.Kind() == types.Uint8 {
					return e.mkStr(e.byteTerms(xv))
				}
				panic(e.unsupported("[]rune to string"))
			case *Term: // integer -> string
				if !xv.IsConst() {
					panic(e.unsupported("symbolic rune to string"))
				}
				return Str{s: string(rune(xv.ConstS()))}
			}
		case ud.Kind() == types.UnsafePointer:
			if p, ok := x.(Ptr); ok {
				return p
			}
		}
	case *types.Slice:
		switch xv := x.(type) {
		case Str:
			et := ud.Elem().Underlying().(*types.Basic)
			if et.Kind() == types.Byte || et.Kind() == types.Uint8 {
				bs := e.strBytes(xv)
				s := e.bytesToSlice(bs)
				return s
			}
			panic(e.unsupported("string to []rune"))
		case Slice:
			return xv
		}
	case *types.Pointer:
		if p, ok := x.(Ptr); ok {
			return p
		}
	}
	if types.Identical(ud, us) {
		return x
	}
	panic(e.unsupported("conversion %v -> %v of %T", tSrc, tDst, x))
}

// ---- builtins ----

func (e *Exec) callBuiltin(caller *frame, callpos token.Pos, fn *ssa.Builtin, args []Value) Value {
	switch fn.Name() {
	case "append":
		return e.builtinAppend(args[0].(Slice), args[1], fn)
	case "copy":
		return e.builtinCopy(args[0].(Slice), args[1])
	case "len":
		switch x := args[0].(type) {
		case Str:
			return e.tt.BV(64, uint64(x.Len()))
		case Slice:
			return e.tt.BV(64, uint64(x.len))
		case *Map:
			if x == nil {
				return e.tt.BV(64, 0)
			}
			return e.tt.BV(64, uint64(len(x.keys)))
		case *Chan:
			if x == nil {
				return e.tt.BV(64, 0)
			}
			return e.tt.BV(64, uint64(len(x.buf)))
		case *Agg:
			return e.tt.BV(64, uint64(len(x.elems)))
		case Ptr: // *array
			n := deref(fn.Type().(*types.Signature).Params().At(0).Type()).Underlying().(*types.Array).Len()
			return e.tt.BV(64, uint64(n))
		}
	case "cap":
		switch x := args[0].(type) {
		case Slice:
			return e.tt.BV(64, uint64(x.cap))
		case *Chan:
			if x == nil {
				return e.tt.BV(64, 0)
			}
			return e.tt.BV(64, uint64(x.cap))
		case *Agg:
			return e.tt.BV(64, uint64(len(x.elems)))
		case Ptr:
			n := deref(fn.Type().(*types.Signature).Params().At(0).Type()).Underlying().(*types.Array).Len()
			return e.tt.BV(64, uint64(n))
		}
	case "delete":
		m := args[0].(*Map)
		if m != nil {
			e.mapDelete(m, args[1])
		}
		return nil
	case "close":
		e.chanClose(caller, args[0].(*Chan))
		return nil
	case "panic":
		panic(goPanic{v: args[0], msg: "panic: " + e.panicString(args[0]), pos: e.frPos(caller)})
	case "recover":
		return e.doRecover(caller)
	case "print", "println":
		return nil
	case "min", "max":
		res := args[0]
		sig := fn.Type().(*types.Signature)
		t := sig.Params().At(0).Type()
		for _, a := range args[1:] {
			var less Value
			if fn.Name() == "min" {
				less = e.binop(token.LSS, t, a, res)
			} else {
				less = e.binop(token.GTR, t, a, res)
			}
			lt := less.(*Term)
			switch r := res.(type) {
			case *Term:
				res = e.tt.Ite(lt, a.(*Term), r)
			default:
				if e.branch(lt) {
					res = a
				}
			}
		}
		return res
	case "clear":
		switch x := args[0].(type) {
		case *Map:
			if x != nil {
				e.noteMapWrite(x)
				x.keys = nil
				x.vals = nil
			}
		case Slice:
			if x.len > 0 {
				e.noteWrite(x.obj)
				arr := e.sliceBacking(x)
				et := fn.Type().(*types.Signature).Params().At(0).Type().Underlying().(*types.Slice).Elem()
				for i := 0; i < x.len; i++ {
					arr.elems[x.off+i] = e.zero(et)
				}
			}
		}
		return nil
	case "ssa:wrapnilchk":
		recv := args[0]
		if p, ok := recv.(Ptr); ok && p.IsNil() {
			panic(e.goPanic("runtime error: value method called using nil pointer"))
		}
		return recv
	}
	panic(e.unsupported("builtin %s on %T", fn.Name(), args[0]))
}

func (e *Exec) doRecover(caller *frame) Value {
	if caller != nil && !caller.panicking && caller.caller != nil && caller.caller.panicking {
		caller.caller.panicking = false
		p := caller.caller.panic
		caller.caller.panic = nil
		if gp, ok := p.(goPanic); ok {
			e.stats.recovered++
			return gp.v
		}
	}
	return Iface{}
}

func (e *Exec) builtinAppend(s Slice, tail Value, fn *ssa.Builtin) Value {
	var add []Value
	switch t := tail.(type) {
	case Slice:
		for _, x := range e.sliceElems(t) {
			add = append(add, e.copyVal(x))
		}
	case Str:
		for _, b := range e.strBytes(t) {
			add = append(add, b)
		}
	default:
		panic(e.unsupported("append tail %T", tail))
	}
	if len(add) == 0 {
		return s
	}
	n := s.len + len(add)
	if n <= s.cap && !s.IsNil() {
		e.noteWrite(s.obj)
		arr := e.sliceBacking(s)
		for i, x := range add {
			arr.elems[s.off+s.len+i] = x
		}
		return Slice{obj: s.obj, path: s.path, off: s.off, len: n, cap: s.cap}
	}
	// grow: new backing array (capacity: double, like the runtime does for small slices)
	newCap := s.cap * 2
	if newCap < n {
		newCap = n
	}
	et := fn.Type().(*types.Signature).Params().At(0).Type().Underlying().(*types.Slice).Elem()
	arr := &Agg{elems: make([]Value, newCap)}
	old := e.sliceElems(s)
	for i, x := range old {
		arr.elems[i] = e.copyVal(x)
	}
	for i, x := range add {
		arr.elems[s.len+i] = x
	}
	if newCap > n {
		z := e.zero(et)
		for i := n; i < newCap; i++ {
			arr.elems[i] = e.copyVal(z)
		}
	}
	obj := e.newObject(types.NewArray(et, int64(newCap)), arr, "append")
	return Slice{obj: obj, len: n, cap: newCap}
}

func (e *Exec) builtinCopy(dst Slice, src Value) Value {
	var from []Value
	switch s := src.(type) {
	case Slice:
		from = e.sliceElems(s)
	case Str:
		for _, b := range e.strBytes(s) {
			from = append(from, b)
		}
	default:
		panic(e.unsupported("copy from %T", src))
	}
	n := dst.len
	if len(from) < n {
		n = len(from)
	}
	if n > 0 {
		e.noteWrite(dst.obj)
		arr := e.sliceBacking(dst)
		tmp := make([]Value, n)
		for i := 0; i < n; i++ {
			tmp[i] = e.copyVal(from[i])
		}
		copy(arr.elems[dst.off:dst.off+n], tmp)
		// an encoded message copied as a whole (or its leading part) keeps standing for its value
		if ss, ok := src.(Slice); ok && ss.obj.snapshot != nil && ss.off == ss.obj.snapOff && len(ss.path) == 0 && len(dst.path) == 0 && ss.len == ss.obj.snapLen {
			dst.obj.snapshot, dst.obj.snapType = ss.obj.snapshot, ss.obj.snapType
			dst.obj.snapAbsent = ss.obj.snapAbsent
			dst.obj.snapOff, dst.obj.snapLen = dst.off, ss.obj.snapLen
		}
	}
	return e.tt.BV(64, uint64(n))
}

// ---- maps ----

func (e *Exec) newMap(keyT types.Type) *Map {
	e.mapCounter++
	return &Map{id: e.mapCounter, keyT: keyT}
}

func (e *Exec) noteMapWrite(m *Map) {
	if e.summaryDepth > 0 && m.id <= e.summaryMapMark {
		panic(summaryAbort{"map write"})
	}
}

// mapFind returns the index of key in m, forking on symbolic equality. -1 when absent.
func (e *Exec) mapFind(m *Map, key Value) int {
	if m == nil {
		return -1
	}
	if it, ok := key.(Iface); ok && it.t != nil && !types.Comparable(it.t) {
		panic(e.goPanic("runtime error: hash of unhashable type " + it.t.String()))
	}
	for i, k := range m.keys {
		eq := e.equalVals(m.keyT, k, key)
		if eq.IsConst() {
			if eq.IsTrue() {
				return i
			}
			continue
		}
		if e.branch(eq) {
			return i
		}
	}
	return -1
}

func (e *Exec) lookup(fr *frame, instr *ssa.Lookup) Value {
	x := fr.get(instr.X)
	switch x := x.(type) {
	case *Map:
		key := fr.get(instr.Index)
		i := e.mapFind(x, key)
		var v Value
		if i >= 0 {
			v = e.copyVal(x.vals[i])
		} else {
			v = e.zero(instr.X.Type().Underlying().(*types.Map).Elem())
		}
		if instr.CommaOk {
			return Tuple{v, e.tt.Bool(i >= 0)}
		}
		return v
	case Str:
		idx := fr.get(instr.Index).(*Term)
		bs := e.strBytes(x)
		if idx.IsConst() {
			return bs[e.boundedIndex(idx, len(bs))]
		}
		vals := make([]Value, len(bs))
		for i, b := range bs {
			vals[i] = b
		}
		return e.symbolicSelect(vals, idx)
	}
	panic(e.unsupported("Lookup on %T", x))
}

func (e *Exec) mapUpdate(m *Map, key, val Value) {
	e.noteMapWrite(m)
	i := e.mapFind(m, key)
	if i >= 0 {
		m.vals[i] = e.copyVal(val)
		return
	}
	m.keys = append(m.keys, e.copyVal(key))
	m.vals = append(m.vals, e.copyVal(val))
}

func (e *Exec) mapDelete(m *Map, key Value) {
	e.noteMapWrite(m)
	i := e.mapFind(m, key)
	if i < 0 {
		return
	}
	m.keys = append(append([]Value{}, m.keys[:i]...), m.keys[i+1:]...)
	m.vals = append(append([]Value{}, m.vals[:i]...), m.vals[i+1:]...)
	m.deleted++
}

type mapIter struct {
	m *Map
	// snapshot of keys at range start; Go semantics: entries deleted during iteration are not produced,
	// entries added may or may not be. We iterate the snapshot and skip keys no longer present.
	keys    []Value
	visited []bool
	n       int
}

type strIter struct {
	s   Str
	pos int
}

func (e *Exec) rangeIter(x Value, t types.Type) Value {
	switch x := x.(type) {
	case *Map:
		it := &mapIter{m: x}
		if x != nil {
			it.keys = append([]Value{}, x.keys...)
			it.visited = make([]bool, len(it.keys))
		}
		return it
	case Str:
		return &strIter{s: x}
	}
	panic(e.unsupported("range over %T", x))
}

func (e *Exec) iterNext(it Value, instr *ssa.Next) Value {
	switch it := it.(type) {
	case *mapIter:
		mt := instr.Iter.(*ssa.Range).X.Type().Underlying().(*types.Map)
		for {
			// candidates: unvisited snapshot keys still present in the map
			var cands []int
			for i := range it.keys {
				if it.visited[i] {
					continue
				}
				if e.mapHasKeyIdentical(it.m, it.keys[i]) < 0 {
					it.visited[i] = true
					continue
				}
				cands = append(cands, i)
			}
			if len(cands) == 0 {
				return Tuple{e.tt.False, e.zero(mt.Key()), e.zero(mt.Elem())}
			}
			pick := cands[0]
			if e.mapOrderAll && len(cands) > 1 && len(it.keys) <= e.mapOrderMax {
				pick = cands[e.choose(len(cands), "map iteration order")]
			}
			it.visited[pick] = true
			j := e.mapHasKeyIdentical(it.m, it.keys[pick])
			return Tuple{e.tt.True, e.copyVal(it.m.keys[j]), e.copyVal(it.m.vals[j])}
		}
	case *strIter:
		if it.pos >= it.s.Len() {
			return Tuple{e.tt.False, e.tt.BV(64, 0), e.tt.BV(32, 0)}
		}
		if !it.s.IsConcrete() {
			// treat bytes < 0x80 only when concrete; symbolic strings ranged bytewise are unsupported
			panic(e.unsupported("range over symbolic string"))
		}
		rest := it.s.s[it.pos:]
		for i, r := range rest {
			_ = i
			start := it.pos
			// width of this rune
			w := len(string(r))
			if r == 0xFFFD && (len(rest) < 3 || rest[:3] != "�") {
				w = 1
			}
			it.pos += w
			return Tuple{e.tt.True, e.tt.BV(64, uint64(start)), e.tt.BV(32, uint64(r))}
		}
	}
	panic(e.unsupported("next on %T", it))
}

// mapHasKeyIdentical finds a key that is the very same value object/term (no symbolic forking): used by
// iteration to check that a snapshot key is still present.
func (e *Exec) mapHasKeyIdentical(m *Map, key Value) int {
	for i, k := range m.keys {
		eq := e.equalVals(m.keyT, k, key)
		if eq.IsTrue() {
			return i
		}
	}
	return -1
}

var _ = math.MaxInt64


// cancelScaledDiv rewrites (a*c1)/c2 to a/(c2/c1) when c1 | c2 and the path condition proves that
// a*c1 cannot overflow int64 (one solver query; on anything but "unsat" the division is kept as is).
// Time arithmetic (seconds*1e9 / interval) is otherwise out of reach of every installed back end.
func (e *Exec) cancelScaledDiv(x, y *Term) *Term {
	if e.summaryDepth > 0 || !y.IsConst() || x.op != OpMul || x.sort.W != 64 {
		return nil
	}
	a, c := x.args[0], x.args[1]
	if !c.IsConst() {
		a, c = c, a
	}
	if !c.IsConst() || a.IsConst() {
		return nil
	}
	c1, c2 := int64(c.c), int64(y.c)
	if c1 <= 1 || c2 <= 0 || c2%c1 != 0 {
		return nil
	}
	const maxI = int64(^uint64(0) >> 1)
	lo, hi := e.tt.BV(64, uint64(-(maxI / c1))), e.tt.BV(64, uint64(maxI/c1))
	inRange := e.tt.And(e.tt.Cmp(OpSLe, lo, a), e.tt.Cmp(OpSLe, a, hi))
	if a.hard {
		return nil
	}
	if r, _ := e.checkSat(e.tt.Not(inRange), nil); r != "unsat" {
		return nil
	}
	e.stubUsed("checked rewrite (a*c1)/c2 -> a/(c2/c1) under a proved no-overflow side condition")
	if c2 == c1 {
		return a
	}
	return e.tt.Bin(OpSDiv, a, e.tt.BV(64, uint64(c2/c1)))
}
