package main

// Loading /repo with an overlay harness and building go/ssa for it.

import (
	"fmt"
	"go/token"
	"go/types"
	"os"
	"path/filepath"
	"strings"
	"sync"

	"golang.org/x/tools/go/packages"
	"golang.org/x/tools/go/ssa"
	"golang.org/x/tools/go/ssa/ssautil"
)

type Program struct {
	prog    *ssa.Program
	fset    *token.FileSet
	pkgs    []*packages.Package
	ssaPkgs []*ssa.Package
	main    *ssa.Package // the package holding the harness
	fnInfos sync.Map
	byPath  map[string]*ssa.Package

	summarize      map[string]bool
	runtimeErrType types.Type
	hostErrType    types.Type
	hostCtxType    types.Type
	hostHashType   types.Type
	stubsUsed      map[string]bool
	errorIface     *types.Interface

	mu            sync.Mutex
	retries       int
	crossChecked  int
	crossDisagree int
	inconclusive  []string
	initStores    map[*ssa.Package]map[*ssa.Global]bool
	initSlices    map[*ssa.Global]*initSlice
	implCache     sync.Map
	methodCache   sync.Map
	intrinsicMemo sync.Map
	loadErrors    []string
}

func (p *Program) noteInconclusive(s string) {
	p.mu.Lock()
	defer p.mu.Unlock()
	if len(p.inconclusive) < 50 {
		p.inconclusive = append(p.inconclusive, s)
	}
}

type LoadSpec struct {
	RepoDir     string
	PkgDir      string   // directory (relative to RepoDir) of the package the harness lives in
	HarnessSrcs []string // real paths of harness files to overlay into PkgDir
	ExtraPkgs   []string // further package patterns to load
}

// Load type-checks the repository package with the harness files overlaid and builds SSA.
func Load(spec LoadSpec) (*Program, error) {
	files := map[string][]byte{}
	for _, h := range spec.HarnessSrcs {
		b, err := os.ReadFile(h)
		if err != nil {
			return nil, err
		}
		files[filepath.Base(h)] = b
	}
	return loadWith(spec, files)
}

// LoadOverlay loads package dir of the repository with the given files (name -> content) overlaid.
func LoadOverlay(repo, dir string, files map[string][]byte) (*Program, error) {
	return loadWith(LoadSpec{RepoDir: repo, PkgDir: dir}, files)
}

func loadWith(spec LoadSpec, files map[string][]byte) (*Program, error) {
	overlay := map[string][]byte{}
	pkgAbs := filepath.Join(spec.RepoDir, spec.PkgDir)
	for name, b := range files {
		overlay[filepath.Join(pkgAbs, name)] = b
	}
	fset := token.NewFileSet()
	cfg := &packages.Config{
		Mode:    packages.LoadAllSyntax,
		Dir:     spec.RepoDir,
		Fset:    fset,
		Overlay: overlay,
		Env:     append(os.Environ(), "GOFLAGS=-mod=mod", "GOPROXY=off", "GOSUMDB=off", "GOTOOLCHAIN=local"),
		Tests:   false,
	}
	patterns := []string{"./" + spec.PkgDir}
	if spec.PkgDir == "" || spec.PkgDir == "." {
		patterns = []string{"."}
	}
	patterns = append(patterns, spec.ExtraPkgs...)
	pkgs, err := packages.Load(cfg, patterns...)
	if err != nil {
		return nil, err
	}
	p := &Program{fset: fset, pkgs: pkgs, byPath: map[string]*ssa.Package{}, summarize: map[string]bool{}, initStores: map[*ssa.Package]map[*ssa.Global]bool{}, initSlices: map[*ssa.Global]*initSlice{}}
	var errs []string
	packages.Visit(pkgs, nil, func(pk *packages.Package) {
		for _, e := range pk.Errors {
			errs = append(errs, e.Error())
		}
	})
	if len(errs) > 0 {
		p.loadErrors = errs
		return p, fmt.Errorf("type errors: %s", strings.Join(errs, "; "))
	}
	prog, spkgs := ssautil.AllPackages(pkgs, ssa.InstantiateGenerics)
	p.prog = prog
	p.ssaPkgs = spkgs
	for _, sp := range prog.AllPackages() {
		p.byPath[sp.Pkg.Path()] = sp
	}
	if len(spkgs) > 0 {
		p.main = spkgs[0]
	}
	// build every package up front: bodies must not be built lazily while workers run concurrently
	prog.Build()
	// synthetic types used by the engine
	p.errorIface = types.Universe.Lookup("error").Type().Underlying().(*types.Interface)
	mk := func(name string) types.Type {
		tn := types.NewTypeName(token.NoPos, nil, name, nil)
		return types.NewNamed(tn, types.NewStruct(nil, nil), nil)
	}
	p.runtimeErrType = mk("runtime.Error")
	p.hostErrType = mk("symgo.hostError")
	p.hostCtxType = mk("symgo.hostContext")
	p.hostHashType = mk("symgo.hostHash")
	p.stubsUsed = map[string]bool{}
	return p, nil
}

func (p *Program) entryFunc(name string) *ssa.Function {
	if p.main == nil {
		return nil
	}
	return p.main.Func(name)
}

func (p *Program) pkgFunc(pkgPath, name string) *ssa.Function {
	sp := p.byPath[pkgPath]
	if sp == nil {
		return nil
	}
	return sp.Func(name)
}

func (p *Program) lookupMethod(t types.Type, meth *types.Func) *ssa.Function {
	type key struct {
		t types.Type
		m string
	}
	k := key{t, meth.Id()}
	if v, ok := p.methodCache.Load(k); ok {
		return v.(*ssa.Function)
	}
	f := p.prog.LookupMethod(t, meth.Pkg(), meth.Name())
	if f != nil {
		p.methodCache.Store(k, f)
	}
	return f
}

func (p *Program) implements(t types.Type, it *types.Interface) bool {
	if t == p.hostErrType {
		// host errors implement error and interfaces made of Error/Unwrap/Is only
		for i := 0; i < it.NumMethods(); i++ {
			switch it.Method(i).Name() {
			case "Error", "Unwrap":
			default:
				return false
			}
		}
		return true
	}
	if t == p.hostCtxType {
		for i := 0; i < it.NumMethods(); i++ {
			switch it.Method(i).Name() {
			case "Done", "Err", "Value", "Deadline":
			default:
				return false
			}
		}
		return true
	}
	if t == p.hostHashType {
		return true
	}
	if t == p.runtimeErrType {
		for i := 0; i < it.NumMethods(); i++ {
			switch it.Method(i).Name() {
			case "Error", "RuntimeError":
			default:
				return false
			}
		}
		return true
	}
	return types.Implements(t, it)
}

// globalObj returns (creating on first use) the memory object for a package-level variable and makes
// sure the package initialisers that assign it have run.
func (e *Exec) globalObj(g *ssa.Global) *Object {
	if o, ok := e.globals[g]; ok {
		return o
	}
	t := deref(g.Type())
	o := e.newObject(t, e.zero(t), "global "+g.String())
	o.birth = 0 // globals pre-exist everything
	e.globals[g] = o
	if v, ok := e.prog.globalInit(e, g); ok {
		o.v = v
		return o
	}
	done := false
	defer func() {
		if !done {
			// initialisation was abandoned (e.g. inside a pure-call summary): the variable must be
			// initialised again on its next use, not left at its zero value
			delete(e.globals, g)
		}
	}()
	e.ensureInit(g.Pkg, g)
	done = true
	return o
}

// ensureInit initialises one package-level variable lazily: it executes, inside a frame of the package
// initialiser that assigns it, just the backward slice of instructions the assignment depends on.
// Package init functions are never run wholesale.
func (e *Exec) ensureInit(pkg *ssa.Package, g *ssa.Global) {
	if pkg == nil {
		return
	}
	sl := e.prog.initSliceFor(g)
	if sl == nil {
		return // no initialiser: zero value
	}
	if sl.err != "" {
		panic(e.unsupported("cannot initialise global %s: %s", g, sl.err))
	}
	if e.summaryDepth > 0 {
		panic(summaryAbort{"global initialisation inside summary"})
	}
	var caller *frame
	if e.sched != nil && e.sched.cur != nil {
		caller = e.sched.cur.fr
	}
	info := e.prog.infoFor(sl.fn)
	fr := &frame{e: e, caller: caller, fn: sl.fn, info: info}
	if caller != nil {
		fr.g = caller.g
		fr.depth = caller.depth + 1
	} else if e.sched != nil {
		fr.g = e.sched.cur
	}
	fr.env = make([]Value, info.n)
	fr.locals = make([]*Object, len(sl.fn.Locals))
	for i, l := range sl.fn.Locals {
		t := deref(l.Type())
		fr.locals[i] = e.newObject(t, e.zero(t), l.Name())
		fr.set(l, Ptr{obj: fr.locals[i]})
	}
	if fr.g != nil {
		saved := fr.g.fr
		fr.g.fr = fr
		defer func() { fr.g.fr = saved }()
	}
	for _, in := range sl.instrs {
		fr.block = in.Block()
		e.visitInstr(fr, in)
	}
	fr.block = nil
	// objects created by initialisers pre-exist everything else
	// (birth 0 keeps pure-call summaries from mistaking them for fresh allocations)
}

type initSlice struct {
	fn     *ssa.Function
	instrs []ssa.Instruction
	err    string
}

func addrRoot(v ssa.Value) ssa.Value {
	for {
		switch r := v.(type) {
		case *ssa.FieldAddr:
			v = r.X
		case *ssa.IndexAddr:
			v = r.X
		case *ssa.Slice:
			v = r.X
		default:
			return v
		}
	}
}

func (p *Program) initSliceFor(g *ssa.Global) *initSlice {
	p.mu.Lock()
	defer p.mu.Unlock()
	if sl, ok := p.initSlices[g]; ok {
		return sl
	}
	var res *initSlice
	defer func() { p.initSlices[g] = res }()
	pkg := g.Pkg
	var fns []*ssa.Function
	if f := pkg.Func("init"); f != nil {
		fns = append(fns, f)
	}
	for i := 1; ; i++ {
		f := pkg.Func(fmt.Sprintf("init#%d", i))
		if f == nil {
			break
		}
		fns = append(fns, f)
	}
	for _, fn := range fns {
		if fn.Blocks == nil {
			pkg.Build()
		}
		selected := map[ssa.Instruction]bool{}
		needed := map[ssa.Value]bool{}
		var work []ssa.Value
		need := func(v ssa.Value) {
			if v == nil || needed[v] {
				return
			}
			needed[v] = true
			work = append(work, v)
		}
		found := false
		for _, b := range fn.Blocks {
			for _, in := range b.Instrs {
				if st, ok := in.(*ssa.Store); ok && addrRoot(st.Addr) == ssa.Value(g) {
					selected[in] = true
					need(st.Val)
					need(st.Addr)
					found = true
				}
			}
		}
		if !found {
			continue
		}
		for len(work) > 0 {
			v := work[len(work)-1]
			work = work[:len(work)-1]
			in, isInstr := v.(ssa.Instruction)
			if !isInstr || in.Parent() != fn {
				continue
			}
			if !selected[in] {
				selected[in] = true
				var ops []*ssa.Value
				ops = in.Operands(ops)
				for _, o := range ops {
					if *o != nil {
						need(*o)
					}
				}
			}
			// aggregates built in place: include the stores that fill them
			switch v.(type) {
			case *ssa.Alloc, *ssa.MakeSlice, *ssa.MakeMap, *ssa.Slice, *ssa.IndexAddr, *ssa.FieldAddr:
				root := addrRoot(v)
				for _, b := range fn.Blocks {
					for _, in2 := range b.Instrs {
						switch x := in2.(type) {
						case *ssa.Store:
							if addrRoot(x.Addr) == root && !selected[in2] {
								selected[in2] = true
								need(x.Val)
								need(x.Addr)
							}
						case *ssa.MapUpdate:
							if x.Map == root && !selected[in2] {
								selected[in2] = true
								need(x.Key)
								need(x.Value)
							}
						}
					}
				}
			}
		}
		sl := &initSlice{fn: fn}
		for _, b := range fn.Blocks {
			for _, in := range b.Instrs {
				if !selected[in] {
					continue
				}
				if _, isPhi := in.(*ssa.Phi); isPhi {
					sl.err = "initialiser has control flow"
				}
				sl.instrs = append(sl.instrs, in)
			}
		}
		res = sl
		return res
	}
	return nil
}
