package main

// The subset of package reflect that krpc.unmarshalBinarySlice uses, implemented natively over the
// engine's own values (a reflect.Value is a Host carrying a static type and either an addressable
// location or a value). Everything outside the subset aborts the path as unsupported (inconclusive).

import (
	"go/types"

	"golang.org/x/tools/go/ssa"
)

type rval struct {
	typ  types.Type
	addr *Ptr  // addressable location, when non-nil
	val  Value // otherwise the value itself
}

func (e *Exec) rvHost(r *rval) Value { return &Host{kind: "rv", data: r} }

func (e *Exec) rvOf(v Value) *rval {
	h, ok := v.(*Host)
	if !ok || h.kind != "rv" {
		panic(e.unsupported("reflect.Value operand is %T", v))
	}
	return h.data.(*rval)
}

func (e *Exec) rvGet(r *rval) Value {
	if r.addr != nil {
		return e.load(*r.addr)
	}
	return r.val
}

func (e *Exec) rtypeIface(t types.Type) Value {
	return Iface{t: types.Typ[types.UnsafePointer], v: &Host{kind: "rtype", data: t}}
}

func (e *Exec) rtypeOf(v Value) types.Type {
	if it, ok := v.(Iface); ok {
		if h, ok := it.v.(*Host); ok && h.kind == "rtype" {
			return h.data.(types.Type)
		}
	}
	panic(e.unsupported("reflect.Type operand is %T", v))
}

func (e *Exec) rtypeMethod(caller *frame, t types.Type, name string, args []Value) Value {
	switch name {
	case "Elem":
		switch u := t.Underlying().(type) {
		case *types.Pointer:
			return e.rtypeIface(u.Elem())
		case *types.Slice:
			return e.rtypeIface(u.Elem())
		case *types.Array:
			return e.rtypeIface(u.Elem())
		}
		panic(e.goPanic("reflect: Elem of invalid type " + t.String()))
	case "String":
		return Str{s: t.String()}
	}
	panic(e.unsupported("reflect.Type method %s", name))
}

func init() {
	reg("reflect.ValueOf", func(e *Exec, c *frame, fn *ssa.Function, a []Value) Value {
		e.stubUsed("package reflect: native subset (ValueOf, Elem, Type, New, Interface, Len, Copy, Append, Set)")
		it := a[0].(Iface)
		if it.t == nil {
			panic(e.unsupported("reflect.ValueOf(nil)"))
		}
		return e.rvHost(&rval{typ: it.t, val: it.v})
	})
	reg("(reflect.Value).Elem", func(e *Exec, c *frame, fn *ssa.Function, a []Value) Value {
		r := e.rvOf(a[0])
		pt, ok := r.typ.Underlying().(*types.Pointer)
		if !ok {
			panic(e.unsupported("reflect.Value.Elem of %v", r.typ))
		}
		p := e.rvGet(r).(Ptr)
		if p.IsNil() {
			panic(e.unsupported("reflect.Value.Elem of nil pointer"))
		}
		return e.rvHost(&rval{typ: pt.Elem(), addr: &p})
	})
	reg("(reflect.Value).Type", func(e *Exec, c *frame, fn *ssa.Function, a []Value) Value {
		return e.rtypeIface(e.rvOf(a[0]).typ)
	})
	reg("reflect.New", func(e *Exec, c *frame, fn *ssa.Function, a []Value) Value {
		t := e.rtypeOf(a[0])
		obj := e.newObject(t, e.zero(t), "reflect.New")
		return e.rvHost(&rval{typ: types.NewPointer(t), val: Ptr{obj: obj}})
	})
	reg("(reflect.Value).Interface", func(e *Exec, c *frame, fn *ssa.Function, a []Value) Value {
		r := e.rvOf(a[0])
		if _, isIface := r.typ.Underlying().(*types.Interface); isIface {
			return e.rvGet(r)
		}
		return Iface{t: r.typ, v: e.rvGet(r)}
	})
	reg("(reflect.Value).Len", func(e *Exec, c *frame, fn *ssa.Function, a []Value) Value {
		r := e.rvOf(a[0])
		switch u := r.typ.Underlying().(type) {
		case *types.Array:
			return e.intT(u.Len())
		case *types.Slice:
			return e.intT(int64(e.rvGet(r).(Slice).len))
		case *types.Basic:
			if u.Info()&types.IsString != 0 {
				return e.intT(int64(e.rvGet(r).(Str).Len()))
			}
		}
		panic(e.goPanic("reflect: call of reflect.Value.Len on " + r.typ.String() + " Value"))
	})
	reg("reflect.Copy", func(e *Exec, c *frame, fn *ssa.Function, a []Value) Value {
		dst, src := e.rvOf(a[0]), e.rvOf(a[1])
		ss, ok := e.rvGet(src).(Slice)
		if !ok {
			panic(e.unsupported("reflect.Copy source %v", src.typ))
		}
		se := e.sliceElems(ss)
		switch dst.typ.Underlying().(type) {
		case *types.Array:
			if dst.addr == nil {
				panic(e.goPanic("reflect.Copy: unaddressable array value"))
			}
			arr := e.loadRaw(*dst.addr).(*Agg)
			e.noteWrite(dst.addr.obj)
			n := len(arr.elems)
			if len(se) < n {
				n = len(se)
			}
			for i := 0; i < n; i++ {
				arr.elems[i] = e.copyVal(se[i])
			}
			return e.intT(int64(n))
		case *types.Slice:
			ds := e.rvGet(dst).(Slice)
			de := e.sliceElems(ds)
			n := len(de)
			if len(se) < n {
				n = len(se)
			}
			if n > 0 {
				e.noteWrite(ds.obj)
			}
			for i := 0; i < n; i++ {
				de[i] = e.copyVal(se[i])
			}
			return e.intT(int64(n))
		}
		panic(e.unsupported("reflect.Copy destination %v", dst.typ))
	})
	reg("reflect.Append", func(e *Exec, c *frame, fn *ssa.Function, a []Value) Value {
		s := e.rvOf(a[0])
		st, ok := s.typ.Underlying().(*types.Slice)
		if !ok {
			panic(e.goPanic("reflect.Append: not a slice"))
		}
		var add []Value
		for _, x := range e.sliceElems(a[1].(Slice)) {
			add = append(add, e.copyVal(e.rvGet(e.rvOf(x))))
		}
		return e.rvHost(&rval{typ: s.typ, val: e.appendValues(e.rvGet(s).(Slice), add, st.Elem())})
	})
	reg("(reflect.Value).Set", func(e *Exec, c *frame, fn *ssa.Function, a []Value) Value {
		dst, x := e.rvOf(a[0]), e.rvOf(a[1])
		if dst.addr == nil {
			panic(e.goPanic("reflect: reflect.Value.Set using unaddressable value"))
		}
		if !types.AssignableTo(x.typ, dst.typ) {
			panic(e.goPanic("reflect.Set: value of type " + x.typ.String() + " is not assignable to type " + dst.typ.String()))
		}
		e.store(*dst.addr, e.rvGet(x))
		return nil
	})
}
