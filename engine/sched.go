package main

// Goroutines, channels, select, mutexes: engine goroutines are host goroutines parked on a baton so
// that exactly one runs at a time; the scheduler's choices are decision points of the exploration.

import (
	"os"
	"fmt"
	"runtime/debug"
	"go/types"
	"strings"
	"sync"

	"golang.org/x/tools/go/ssa"
)

type gStatus int

const (
	gRunnable gStatus = iota
	gBlocked
	gDone
)

type Goroutine struct {
	id      int
	name    string
	status  gStatus
	wake    chan struct{}
	ready   func() bool // for blocked goroutines: can it proceed now?
	what    string      // description of what it is blocked on
	timerOnly bool      // blocked only on timers
	daemon  bool
	quiescing bool
	dormant bool
	fr      *frame
	where   string
	creator int
}

type Sched struct {
	e        *Exec
	gs       []*Goroutine
	cur      *Goroutine
	killCh   chan struct{}
	killed   bool
	done     chan struct{}
	wg       sync.WaitGroup
	verdict  string
	note     string
	preempts int
	recursionPts int
	points   int
	trace    []string
	mu       sync.Mutex
	finished bool
}

type Chan struct {
	id     int
	cap    int
	buf    []Value
	closed bool
	elemT  types.Type
	// rendezvous for unbuffered channels
	sendq []*sendWaiter
	recvq []*recvWaiter
	timer bool // a timer channel (abstract time): armed until the scheduler or the harness lets it expire
	tstate int // 0 armed, 1 expired (one value can be received), 2 consumed
	immediate bool // timer with zero delay: expired from the start
	label string
}

type sendWaiter struct {
	g    *Goroutine
	v    Value
	done bool
	sel  *selectWait
	idx  int
}

type recvWaiter struct {
	g    *Goroutine
	v    Value
	ok   bool
	done bool
	sel  *selectWait
	idx  int
}

type selectWait struct {
	fired  bool
	chosen int
	v      Value
	ok     bool
}

func (e *Exec) newChan(n int, t types.Type) *Chan {
	e.chanCounter++
	c := &Chan{id: e.chanCounter, cap: n}
	if t != nil {
		if ct, ok := t.Underlying().(*types.Chan); ok {
			c.elemT = ct.Elem()
		}
	}
	return c
}

// runScheduled runs the entry function as goroutine 0 and schedules everything it spawns.
func (e *Exec) runScheduled(entry *ssa.Function) (verdict, note string) {
	s := &Sched{e: e, killCh: make(chan struct{}), done: make(chan struct{})}
	e.sched = s
	g0 := &Goroutine{id: 0, name: "main:" + entry.Name(), wake: make(chan struct{}, 1)}
	s.gs = append(s.gs, g0)
	s.cur = g0
	s.wg.Add(1)
	go s.goroutineMain(g0, func() {
		e.callSSA(nil, 0, entry, nil, nil)
	})
	<-s.done
	// tear down every parked goroutine before the next path starts
	s.mu.Lock()
	if !s.killed {
		s.killed = true
		close(s.killCh)
	}
	s.mu.Unlock()
	s.wg.Wait()
	return s.verdict, s.note
}

func (s *Sched) finish(verdict, note string) {
	s.mu.Lock()
	defer s.mu.Unlock()
	if s.finished {
		return
	}
	s.finished = true
	s.verdict = verdict
	s.note = note
	close(s.done)
}

// goroutineMain is the host-goroutine body of an engine goroutine.
func (s *Sched) goroutineMain(g *Goroutine, body func()) {
	defer s.wg.Done()
	e := s.e
	if g.id != 0 {
		// wait to be scheduled for the first time
		select {
		case <-g.wake:
		case <-s.killCh:
			return
		}
	}
	exitNormally := false
	func() {
		defer func() {
			r := recover()
			if r == nil {
				return
			}
			switch x := r.(type) {
			case killed:
				return
			case goPanic:
				// uncaught panic of the interpreted program: a crash of the process
				e.recordViolation("panic", x.msg, g.fr, nil)
				if len(e.violations) > 0 {
					v := &e.violations[len(e.violations)-1]
					v.Where = x.pos
				}
				s.finish("violation", "uncaught panic: "+x.msg+" at "+x.pos)
			case engineAbort:
				if x.kind == "bound" && e.cfg.HangIsViolation && strings.HasPrefix(x.reason, "step bound") {
					e.recordViolation("hang", fmt.Sprintf("does not terminate within %d interpreted instructions", e.maxSteps), g.fr, nil)
					s.finish("violation", "hang: "+x.reason+" at "+e.frPos(g.fr))
					return
				}
				s.finish("abort:"+x.kind, x.reason+" at "+e.frPos(g.fr))
			case pathEnd:
				s.finish("ended", x.why)
			case summaryAbort:
				s.finish("abort:internal", "summaryAbort escaped: "+x.why)
			default:
				s.finish("abort:internal", fmt.Sprintf("engine panic: %v\n%s\nHOST STACK:\n%s", r, e.stackString(g.fr), hostStack()))
			}
		}()
		body()
		exitNormally = true
	}()
	if !exitNormally {
		return
	}
	g.status = gDone
	s.logTrace(g, "exit")
	// hand over
	s.scheduleNext(g, true)
}

func (s *Sched) logTrace(g *Goroutine, what string) {
	if len(s.trace) < 400 {
		s.trace = append(s.trace, fmt.Sprintf("g%d %s", g.id, what))
	}
}

// spawn implements the go statement.
func (e *Exec) spawn(fr *frame, instr *ssa.Go, fn Value, args []Value) {
	if e.summaryDepth > 0 {
		panic(summaryAbort{"go statement"})
	}
	s := e.sched
	if len(s.gs) >= e.cfg.maxGoroutines() {
		panic(engineAbort{kind: "bound", reason: fmt.Sprintf("more than %d goroutines", e.cfg.maxGoroutines())})
	}
	g := &Goroutine{id: len(s.gs), wake: make(chan struct{}, 1), creator: fr.g.id}
	switch f := fn.(type) {
	case *ssa.Function:
		g.name = f.Name()
	case *Closure:
		g.name = f.fn.Name()
	}
	g.where = e.frPos(fr)
	s.gs = append(s.gs, g)
	s.wg.Add(1)
	pos := instr.Pos()
	go s.goroutineMain(g, func() {
		e.call(nil, pos, fn, args)
	})
	s.logTrace(fr.g, fmt.Sprintf("go g%d(%s)", g.id, g.name))
	e.schedPoint(fr.g, "go")
}

func (c *RunConfig) maxGoroutines() int { return 400 }

// enabled returns the goroutines that could run now.
func (s *Sched) enabled(except *Goroutine) []*Goroutine {
	var out []*Goroutine
	for _, g := range s.gs {
		if g == except {
			continue
		}
		switch g.status {
		case gRunnable:
			out = append(out, g)
		case gBlocked:
			if g.ready != nil && g.ready() {
				out = append(out, g)
			}
		}
	}
	return out
}

// scheduleNext is called by a goroutine that cannot (or will not) continue: picks the next one.
// If exiting is true the caller is finished and does not wait to be woken.
func (s *Sched) scheduleNext(g *Goroutine, exiting bool) {
	e := s.e
	cands := s.enabled(nil)
	if !exiting {
		// g itself is blocked: it is in cands only if its ready() is true
	}
	if len(cands) == 0 {
		// a parked environment action happens now at the latest
		for _, x := range s.gs {
			if x.dormant && x.status == gBlocked {
				x.dormant = false
				s.logTrace(x, "dormant action released (nothing else can run)")
				s.scheduleNext(g, exiting)
				return
			}
		}
		// nothing can run: time passes. One armed timer that somebody waits for expires (all choices
		// explored under SchedAll), and scheduling resumes.
		if ts := e.waitedTimers(); len(ts) > 0 {
			k := 0
			if len(ts) > 1 && e.cfg.SchedAll {
				k = e.choose(len(ts), "timer to expire")
			}
			ts[k].tstate = 1
			s.logTrace(g, fmt.Sprintf("time passes: timer chan#%d expires", ts[k].id))
			s.scheduleNext(g, exiting)
			return
		}
		// quiescence
		var blocked []string
		mainBlocked := false
		for _, x := range s.gs {
			if x.status == gBlocked && !x.daemon {
				blocked = append(blocked, fmt.Sprintf("g%d(%s) blocked on %s at %s", x.id, x.name, x.what, e.frPos(x.fr)))
				if x.id == 0 {
					mainBlocked = true
				}
			}
		}
		if len(blocked) == 0 {
			s.finish("ok", "")
		} else {
			kind := "leak"
			if mainBlocked {
				kind = "deadlock"
			}
			if e.cfg.AllowBlocked {
				s.finish("ok", "quiescent with blocked goroutines (allowed)")
			} else {
				var fr *frame
				for _, x := range s.gs {
					if x.status == gBlocked && !x.daemon {
						fr = x.fr
						break
					}
				}
				e.recordViolation(kind, kind+": "+strings.Join(blocked, "; "), fr, nil)
				s.finish("violation", kind)
			}
		}
		if !exiting {
			s.park(g)
		}
		return
	}
	next := cands[0]
	if len(cands) > 1 && e.cfg.SchedAll {
		next = cands[e.choose(len(cands), "schedule")]
	}
	s.switchTo(g, next, exiting)
}

func (s *Sched) switchTo(from, to *Goroutine, exiting bool) {
	if to == from {
		from.status = gRunnable
		return
	}
	if to.status == gBlocked {
		to.status = gRunnable
	}
	s.cur = to
	s.logTrace(to, "run")
	to.wake <- struct{}{}
	if !exiting {
		s.park(from)
	}
}

// park blocks the host goroutine until it is scheduled again (or the path is torn down).
func (s *Sched) park(g *Goroutine) {
	select {
	case <-g.wake:
		if g.status == gBlocked {
			g.status = gRunnable
		}
	case <-s.killCh:
		panic(killed{})
	}
}

// blockUntil parks g until ready() holds. ready is evaluated by whichever goroutine schedules.
func (e *Exec) blockUntil(g *Goroutine, what string, ready func() bool) {
	if e.summaryDepth > 0 {
		panic(summaryAbort{"blocking operation: " + what})
	}
	s := e.sched
	for !ready() {
		g.status = gBlocked
		g.ready = ready
		g.what = what
		s.logTrace(g, "block: "+what)
		s.scheduleNext(g, false)
	}
	g.status = gRunnable
	g.ready = nil
}

// schedPoint is a scheduling point at which the current goroutine may be preempted.
func (e *Exec) schedPoint(g *Goroutine, what string) {
	if e.summaryDepth > 0 {
		panic(summaryAbort{"sync operation: " + what})
	}
	s := e.sched
	s.points++
	if s.points > e.cfg.maxSchedPoints() {
		panic(engineAbort{kind: "bound", reason: fmt.Sprintf("more than %d scheduling points", e.cfg.maxSchedPoints())})
	}
	if e.cfg.Preempt <= 0 || s.preempts >= e.cfg.Preempt {
		return
	}
	others := s.enabled(g)
	if len(others) == 0 {
		return
	}
	c := e.choose(len(others)+1, "preempt at "+what)
	if c == 0 {
		return
	}
	s.preempts++
	next := others[c-1]
	g.status = gRunnable
	s.logTrace(g, "preempted at "+what)
	s.switchTo(g, next, false)
}

func (c *RunConfig) maxSchedPoints() int {
	if c.MaxSchedPoints > 0 {
		return c.MaxSchedPoints
	}
	return 5000
}

// recursionPoint: a goroutine is about to take a read lock it already holds. Up to two such points per
// path offer the choice of letting another goroutine run first (not counted against the preemption
// bound: the point does not exist in code that never locks recursively).
func (e *Exec) recursionPoint(g *Goroutine, what string) {
	if e.summaryDepth > 0 {
		return
	}
	s := e.sched
	if s.recursionPts >= 2 {
		return
	}
	others := s.enabled(g)
	for _, x := range s.gs {
		if x.dormant && x.status == gBlocked {
			others = append(others, x)
		}
	}
	if len(others) == 0 {
		return
	}
	s.recursionPts++
	c := e.choose(len(others)+1, "preempt at "+what)
	if os.Getenv("VERIF_DBG") != "" {
		names := ""
		for _, o := range others {
			names += fmt.Sprintf(" g%d(%s,%d,%s)", o.id, o.name, o.status, o.what)
		}
		fmt.Fprintf(os.Stderr, "DBG recursion point %d in g%d: choice %d of%s\n", s.recursionPts, g.id, c, names)
	}
	if c == 0 {
		return
	}
	g.status = gRunnable
	s.logTrace(g, "preempted at "+what)
	others[c-1].dormant = false
	s.switchTo(g, others[c-1], false)
}

// yieldPoint is an explicit yield (verifYield): other runnable goroutines may run, without
// consuming preemption budget when SchedAll is set.
func (e *Exec) yieldPoint(g *Goroutine) {
	if e.summaryDepth > 0 {
		panic(summaryAbort{"yield"})
	}
	s := e.sched
	s.points++
	others := s.enabled(g)
	if len(others) == 0 {
		return
	}
	if !e.cfg.SchedAll && !e.cfg.SchedYield {
		// deterministic policy: let the others run first (round robin)
		g.status = gRunnable
		s.switchTo(g, others[0], false)
		return
	}
	c := e.choose(len(others)+1, "yield")
	if c == 0 {
		return
	}
	g.status = gRunnable
	s.switchTo(g, others[c-1], false)
}

// ---- channels ----

func (e *Exec) curG(fr *frame) *Goroutine {
	if fr != nil && fr.g != nil {
		return fr.g
	}
	return e.sched.cur
}

func (c *Chan) canRecv() bool {
	if c == nil {
		return false
	}
	if c.timer {
		return c.tstate == 1
	}
	if len(c.buf) > 0 || c.closed {
		return true
	}
	for _, w := range c.sendq {
		if !w.done && (w.sel == nil || !w.sel.fired) {
			return true
		}
	}
	return false
}

func (c *Chan) canSend() bool {
	if c == nil {
		return false
	}
	if c.closed {
		return true // will panic
	}
	if len(c.buf) < c.cap {
		return true
	}
	for _, w := range c.recvq {
		if !w.done && (w.sel == nil || !w.sel.fired) {
			return true
		}
	}
	return false
}

// doRecv performs a receive that is known to be possible.
func (e *Exec) doRecv(c *Chan) (Value, bool) {
	if c.timer {
		c.tstate = 2
		return e.zero(c.elemT), true
	}
	if len(c.buf) > 0 {
		v := c.buf[0]
		c.buf = c.buf[1:]
		// a blocked sender may now proceed into the buffer
		for _, w := range c.sendq {
			if !w.done && (w.sel == nil || !w.sel.fired) && len(c.buf) < c.cap {
				c.buf = append(c.buf, w.v)
				w.done = true
				if w.sel != nil {
					w.sel.fired = true
					w.sel.chosen = w.idx
				}
				break
			}
		}
		c.gc()
		return v, true
	}
	for _, w := range c.sendq {
		if !w.done && (w.sel == nil || !w.sel.fired) {
			w.done = true
			if w.sel != nil {
				w.sel.fired = true
				w.sel.chosen = w.idx
			}
			c.gc()
			return w.v, true
		}
	}
	if c.closed {
		return e.zero(c.elemT), false
	}
	panic(engineAbort{kind: "internal", reason: "doRecv on channel that is not ready"})
}

func (e *Exec) doSend(c *Chan, v Value) {
	if c.closed {
		panic(e.goPanic("send on closed channel"))
	}
	for _, w := range c.recvq {
		if !w.done && (w.sel == nil || !w.sel.fired) {
			w.v = v
			w.ok = true
			w.done = true
			if w.sel != nil {
				w.sel.fired = true
				w.sel.chosen = w.idx
				w.sel.v = v
				w.sel.ok = true
			}
			c.gc()
			return
		}
	}
	if len(c.buf) < c.cap {
		c.buf = append(c.buf, v)
		return
	}
	panic(engineAbort{kind: "internal", reason: "doSend on channel that is not ready"})
}

func (c *Chan) gc() {
	var sq []*sendWaiter
	for _, w := range c.sendq {
		if !w.done && (w.sel == nil || !w.sel.fired) {
			sq = append(sq, w)
		}
	}
	c.sendq = sq
	var rq []*recvWaiter
	for _, w := range c.recvq {
		if !w.done && (w.sel == nil || !w.sel.fired) {
			rq = append(rq, w)
		}
	}
	c.recvq = rq
}

func (e *Exec) chanSend(fr *frame, c *Chan, v Value) {
	g := e.curG(fr)
	e.schedPoint(g, "chan send")
	v = e.copyVal(v)
	if c == nil {
		e.blockUntil(g, "send on nil channel", func() bool { return false })
		return
	}
	if c.canSend() {
		e.doSend(c, v)
		return
	}
	w := &sendWaiter{g: g, v: v}
	c.sendq = append(c.sendq, w)
	e.blockUntil(g, fmt.Sprintf("send on chan#%d", c.id), func() bool { return w.done || c.closed })
	if !w.done {
		w.done = true
		c.gc()
		panic(e.goPanic("send on closed channel"))
	}
}

func (e *Exec) chanRecv(fr *frame, c *Chan) (Value, bool) {
	g := e.curG(fr)
	e.schedPoint(g, "chan recv")
	if c == nil {
		e.blockUntil(g, "receive on nil channel", func() bool { return false })
		return nil, false
	}
	if c.canRecv() {
		return e.doRecv(c)
	}
	w := &recvWaiter{g: g}
	c.recvq = append(c.recvq, w)
	e.blockUntil(g, fmt.Sprintf("recv on chan#%d%s", c.id, c.label), func() bool { return w.done || c.closed || (c.timer && c.canRecv()) })
	if w.done {
		return w.v, w.ok
	}
	if c.timer && c.canRecv() {
		w.done = true
		c.gc()
		return e.doRecv(c)
	}
	w.done = true
	c.gc()
	return e.zero(c.elemT), false
}

func (e *Exec) chanClose(fr *frame, c *Chan) {
	g := e.curG(fr)
	e.schedPoint(g, "close")
	if c == nil {
		panic(e.goPanic("close of nil channel"))
	}
	if c.closed {
		panic(e.goPanic("close of closed channel"))
	}
	e.closeCommit(c)
}

// closeCommit closes c. As in Go, a goroutine already blocked in a select is committed to the first
// of its cases that becomes ready: selects waiting to receive from c take that case now (they do not
// get to choose again when they are next scheduled).
func (e *Exec) closeCommit(c *Chan) {
	c.closed = true
	for _, w := range c.recvq {
		if w.done || w.sel == nil || w.sel.fired {
			continue
		}
		w.sel.fired = true
		w.sel.chosen = w.idx
		w.sel.v = nil
		w.sel.ok = false
		w.done = true
	}
}

func (e *Exec) selectOp(fr *frame, instr *ssa.Select) Value {
	g := e.curG(fr)
	e.schedPoint(g, "select")
	n := len(instr.States)
	chans := make([]*Chan, n)
	sends := make([]Value, n)
	for i, st := range instr.States {
		chans[i], _ = fr.get(st.Chan).(*Chan)
		if st.Send != nil {
			sends[i] = e.copyVal(fr.get(st.Send))
		}
	}
	readyArms := func() []int {
		var r []int
		for i, st := range instr.States {
			c := chans[i]
			if c == nil {
				continue
			}
			if st.Dir == types.RecvOnly {
				if c.canRecv() {
					r = append(r, i)
				}
			} else if c.canSend() {
				r = append(r, i)
			}
		}
		return r
	}
	result := func(chosen int, v Value, ok bool) Value {
		r := Tuple{e.tt.BV(64, uint64(int64(chosen))), e.tt.Bool(ok)}
		for i, st := range instr.States {
			if st.Dir == types.RecvOnly {
				if i == chosen && v != nil {
					r = append(r, v)
				} else {
					r = append(r, e.zero(st.Chan.Type().Underlying().(*types.Chan).Elem()))
				}
			}
		}
		return r
	}
	perform := func(i int) Value {
		st := instr.States[i]
		if st.Dir == types.RecvOnly {
			v, ok := e.doRecv(chans[i])
			return result(i, v, ok)
		}
		e.doSend(chans[i], sends[i])
		return result(i, nil, false)
	}
	arms := readyArms()
	if len(arms) > 0 {
		pick := arms[0]
		if len(arms) > 1 {
			// Go picks pseudo-randomly among ready arms: every choice is explored
			pick = arms[e.choose(len(arms), "select arm")]
		}
		return perform(pick)
	}
	if !instr.Blocking {
		return result(-1, nil, false)
	}
	// register on all channels and block
	sw := &selectWait{chosen: -1}
	for i, st := range instr.States {
		c := chans[i]
		if c == nil {
			continue
		}
		if st.Dir == types.RecvOnly {
			c.recvq = append(c.recvq, &recvWaiter{g: g, sel: sw, idx: i})
		} else {
			c.sendq = append(c.sendq, &sendWaiter{g: g, v: sends[i], sel: sw, idx: i})
		}
	}
	var what []string
	for i, c := range chans {
		if c != nil {
			what = append(what, fmt.Sprintf("chan#%d%s", c.id, c.label))
		} else {
			what = append(what, fmt.Sprintf("nil[%d]", i))
		}
	}
	closedArm := func() int {
		for i, c := range chans {
			if c != nil && c.closed {
				return i
			}
		}
		return -1
	}
	e.blockUntil(g, "select{"+strings.Join(what, ",")+"}", func() bool {
		if sw.fired {
			return true
		}
		if closedArm() >= 0 {
			return true
		}
		// buffered channels / timers may have become ready
		return len(readyArms()) > 0
	})
	if sw.fired {
		for _, c := range chans {
			if c != nil {
				c.gc()
			}
		}
		return result(sw.chosen, sw.v, sw.ok)
	}
	sw.fired = true // withdraw registrations
	for _, c := range chans {
		if c != nil {
			c.gc()
		}
	}
	sw2 := readyArms()
	if len(sw2) == 0 {
		panic(engineAbort{kind: "internal", reason: "select woke with no ready arm"})
	}
	pick := sw2[0]
	if len(sw2) > 1 {
		pick = sw2[e.choose(len(sw2), "select arm")]
	}
	return perform(pick)
}

// ---- mutexes (sync.Mutex / sync.RWMutex state lives in the engine, keyed by object+path) ----

type mutexState struct {
	writer      *Goroutine
	readers     int
	pending     int // writers waiting in Lock
	readHolders map[*Goroutine]int
	name        string
}

func (e *Exec) mutexOf(p Ptr) *mutexState {
	key := fmt.Sprintf("mu:%d:%v", p.obj.id, p.path)
	if m, ok := e.hostState[key]; ok {
		return m.(*mutexState)
	}
	m := &mutexState{name: key}
	e.hostState[key] = m
	return m
}

type onceState struct {
	done    bool
	running bool
}

type wgState struct {
	n int
}

func hostStack() string {
	b := debug.Stack()
	lines := strings.Split(string(b), "\n")
	var out []string
	for _, l := range lines {
		if strings.Contains(l, "/verif/engine/") {
			out = append(out, strings.TrimSpace(l))
		}
		if len(out) > 14 {
			break
		}
	}
	return strings.Join(out, "\n")
}


// waitedTimers lists the armed timer channels on which some goroutine is blocked.
func (e *Exec) waitedTimers() []*Chan {
	var out []*Chan
	ts, _ := e.hostState["timers"].([]*Chan)
	for _, c := range ts {
		if c.tstate != 0 {
			continue
		}
		for _, w := range c.recvq {
			if !w.done && (w.sel == nil || !w.sel.fired) {
				out = append(out, c)
				break
			}
		}
	}
	return out
}
