package main

// Solver layer: one long-lived SMT solver process per worker, spoken to in SMT-LIB2 over a pipe.

import (
	"bufio"
	"fmt"
	"io"
	"os"
	"os/exec"
	"strconv"
	"strings"
	"time"
)

type SolverKind int

const (
	KindZ3 SolverKind = iota
	KindZ3New
	KindCVC5
	KindCVC5Int // cvc5 --solve-bv-as-int=sum (for division / multiplication kernels)
)

var mainZ3Name string

func mainZ3() string {
	if mainZ3Name != "" {
		return mainZ3Name
	}
	if v := os.Getenv("VERIF_Z3"); v != "" {
		mainZ3Name = v
		return v
	}
	if _, err := exec.LookPath("z3-new"); err == nil {
		mainZ3Name = "z3-new"
	} else {
		mainZ3Name = "z3"
	}
	return mainZ3Name
}

func (k SolverKind) String() string {
	return [...]string{"z3", "z3-new", "cvc5", "cvc5-bvint"}[k]
}

type Solver struct {
	kind    SolverKind
	tt      *TermTable
	cmd     *exec.Cmd
	in      *bufio.Writer
	inRaw   io.WriteCloser
	out     *bufio.Reader
	defined map[int]bool
	declVar map[string]bool
	declUF  map[string]bool
	depth   int
	log     *os.File
	// stats
	Queries   int
	Sat       int
	Unsat     int
	Unknown   int
	Errors    int
	TotalTime time.Duration
	timeoutMs int
	dead      bool
}

func NewSolver(kind SolverKind, tt *TermTable, timeoutMs int, logPath string) (*Solver, error) {
	s := &Solver{kind: kind, tt: tt, defined: map[int]bool{}, declVar: map[string]bool{}, declUF: map[string]bool{}, timeoutMs: timeoutMs}
	var cmd *exec.Cmd
	switch kind {
	case KindZ3:
		// the default back end: z3 5.1 (z3-new) when installed - measured 4-5x faster than 4.8.12 on the
		// server-level queries and on model extraction; VERIF_Z3=z3 forces the old binary
		cmd = exec.Command(mainZ3(), "-in", "-smt2")
	case KindZ3New:
		// the *other* z3 (used for retries and cross-checks)
		other := "z3"
		if mainZ3() == "z3" {
			other = "z3-new"
		}
		cmd = exec.Command(other, "-in", "-smt2")
	case KindCVC5:
		cmd = exec.Command("cvc5", "--incremental", "--lang=smt2", "--produce-models", "--tlimit-per="+strconv.Itoa(timeoutMs))
	case KindCVC5Int:
		cmd = exec.Command("cvc5", "--incremental", "--lang=smt2", "--produce-models", "--solve-bv-as-int=sum", "--tlimit-per="+strconv.Itoa(timeoutMs))
	}
	in, err := cmd.StdinPipe()
	if err != nil {
		return nil, err
	}
	out, err := cmd.StdoutPipe()
	if err != nil {
		return nil, err
	}
	cmd.Stderr = cmd.Stdout
	if err := cmd.Start(); err != nil {
		return nil, err
	}
	s.cmd = cmd
	s.inRaw = in
	s.in = bufio.NewWriterSize(in, 1<<16)
	s.out = bufio.NewReaderSize(out, 1<<16)
	if logPath != "" {
		f, err := os.Create(logPath)
		if err == nil {
			s.log = f
		}
	}
	switch kind {
	case KindZ3, KindZ3New:
		s.send("(set-option :global-declarations true)")
		s.send("(set-option :produce-models true)")
		s.send(fmt.Sprintf("(set-option :timeout %d)", timeoutMs))
	default:
		s.send("(set-option :global-declarations true)")
		s.send("(set-logic ALL)")
	}
	return s, nil
}

func (s *Solver) Close() {
	if s.cmd == nil {
		return
	}
	s.dead = true
	s.inRaw.Close()
	done := make(chan struct{})
	go func() { s.cmd.Wait(); close(done) }()
	select {
	case <-done:
	case <-time.After(500 * time.Millisecond):
		s.cmd.Process.Kill()
		<-done
	}
	if s.log != nil {
		s.log.Close()
	}
	s.cmd = nil
}

func (s *Solver) send(line string) {
	if s.log != nil {
		fmt.Fprintln(s.log, line)
	}
	s.in.WriteString(line)
	s.in.WriteByte('\n')
}

func (s *Solver) flush() { s.in.Flush() }

// define emits declarations / definitions needed for t (post-order).
func (s *Solver) define(t *Term) {
	switch t.op {
	case OpConst:
		return
	case OpVar:
		if !s.declVar[t.name] {
			s.declVar[t.name] = true
			s.send(fmt.Sprintf("(declare-const %s %s)", smtSym(t.name), t.sort))
		}
		return
	}
	if s.defined[t.id] {
		return
	}
	// iterative post-order to avoid deep recursion on long chains
	type item struct {
		t    *Term
		next int
	}
	stack := []item{{t, 0}}
	for len(stack) > 0 {
		top := &stack[len(stack)-1]
		if top.next < len(top.t.args) {
			a := top.t.args[top.next]
			top.next++
			switch a.op {
			case OpConst:
			case OpVar:
				if !s.declVar[a.name] {
					s.declVar[a.name] = true
					s.send(fmt.Sprintf("(declare-const %s %s)", smtSym(a.name), a.sort))
				}
			default:
				if !s.defined[a.id] {
					stack = append(stack, item{a, 0})
				}
			}
			continue
		}
		x := top.t
		stack = stack[:len(stack)-1]
		if s.defined[x.id] {
			continue
		}
		if x.op == OpApp && !s.declUF[x.name] {
			d := s.tt.ufs[x.name]
			s.declUF[x.name] = true
			var sb strings.Builder
			for i, a := range d.args {
				if i > 0 {
					sb.WriteByte(' ')
				}
				sb.WriteString(a.String())
			}
			s.send(fmt.Sprintf("(declare-fun %s (%s) %s)", smtSym(d.name), sb.String(), d.ret))
		}
		s.defined[x.id] = true
		s.send(fmt.Sprintf("(define-fun %s () %s %s)", tname(x), x.sort, s.tt.body(x)))
	}
}

func (s *Solver) Push() {
	s.send("(push 1)")
	s.depth++
}

func (s *Solver) Pop() {
	s.send("(pop 1)")
	s.depth--
}

func (s *Solver) Assert(t *Term) {
	s.define(t)
	s.send(fmt.Sprintf("(assert %s)", s.tt.ref(t)))
}

// Check returns "sat", "unsat", "unknown" or "error".
func (s *Solver) Check() string {
	if s.dead {
		return "error"
	}
	start := time.Now()
	s.send("(check-sat)")
	s.flush()
	res := "error"
	sawErr := false
	for {
		line, err := s.out.ReadString('\n')
		if err != nil {
			s.dead = true
			res = "error"
			break
		}
		line = strings.TrimSpace(line)
		if line == "" {
			continue
		}
		if line == "sat" || line == "unsat" || line == "unknown" {
			res = line
			break
		}
		if strings.HasPrefix(line, "(error") {
			sawErr = true
			if s.log != nil {
				fmt.Fprintln(s.log, "; SOLVER:", line)
			}
			fmt.Fprintln(os.Stderr, "solver", s.kind, "error:", line)
			continue
		}
		if strings.Contains(line, "timeout") || strings.Contains(line, "interrupted") {
			// cvc5 prints e.g. "cvc5 interrupted by timeout." and then exits or continues
			if s.log != nil {
				fmt.Fprintln(s.log, "; SOLVER:", line)
			}
			continue
		}
		if s.log != nil {
			fmt.Fprintln(s.log, "; SOLVER?:", line)
		}
	}
	if sawErr {
		res = "error"
	}
	s.Queries++
	s.TotalTime += time.Since(start)
	switch res {
	case "sat":
		s.Sat++
	case "unsat":
		s.Unsat++
	case "unknown":
		s.Unknown++
	default:
		s.Errors++
	}
	if s.log != nil {
		fmt.Fprintf(s.log, "; => %s (%.3fs)\n", res, time.Since(start).Seconds())
	}
	return res
}

// readSexpr reads one balanced s-expression (possibly multi-line) from the solver.
func (s *Solver) readSexpr() (string, error) {
	var sb strings.Builder
	depth := 0
	started := false
	inBar := false
	inStr := false
	for {
		b, err := s.out.ReadByte()
		if err != nil {
			s.dead = true
			return sb.String(), err
		}
		sb.WriteByte(b)
		switch {
		case inBar:
			if b == '|' {
				inBar = false
			}
		case inStr:
			if b == '"' {
				inStr = false
			}
		case b == '|':
			inBar = true
		case b == '"':
			inStr = true
		case b == '(':
			depth++
			started = true
		case b == ')':
			depth--
		}
		if started && depth == 0 {
			return sb.String(), nil
		}
	}
}

// GetValues asks for the values of the given variables (after a sat answer).
func (s *Solver) GetValues(vars []*Term) (map[string]uint64, error) {
	res := map[string]uint64{}
	if len(vars) == 0 {
		return res, nil
	}
	start := time.Now()
	defer func() {
		s.TotalTime += time.Since(start)
		if s.log != nil {
			fmt.Fprintf(s.log, "; get-value took %.3fs\n", time.Since(start).Seconds())
		}
	}()
	const chunk = 200
	for off := 0; off < len(vars); off += chunk {
		end := off + chunk
		if end > len(vars) {
			end = len(vars)
		}
		var sb strings.Builder
		sb.WriteString("(get-value (")
		for _, v := range vars[off:end] {
			s.define(v)
			sb.WriteString(s.tt.ref(v))
			sb.WriteByte(' ')
		}
		sb.WriteString("))")
		s.send(sb.String())
		s.flush()
		txt, err := s.readSexpr()
		if err != nil {
			return nil, err
		}
		if strings.HasPrefix(strings.TrimSpace(txt), "(error") {
			return nil, fmt.Errorf("get-value: %s", txt)
		}
		toks := tokenize(txt)
		// expected: ( ( name value ) ( name value ) ... )
		i := 0
		if i < len(toks) && toks[i] == "(" {
			i++
		}
		vi := off
		for i < len(toks) && toks[i] == "(" {
			i++
			// name may itself be an s-expr? we only ask for symbols/tN names
			i++ // name
			val, n := parseValue(toks[i:])
			i += n
			if i < len(toks) && toks[i] == ")" {
				i++
			}
			if vi < end {
				v := vars[vi]
				key := v.name
				if v.op != OpVar {
					key = tname(v)
				}
				res[key] = val
			}
			vi++
		}
	}
	return res, nil
}

func tokenize(s string) []string {
	var toks []string
	i := 0
	for i < len(s) {
		c := s[i]
		switch {
		case c == '(' || c == ')':
			toks = append(toks, string(c))
			i++
		case c == ' ' || c == '\n' || c == '\t' || c == '\r':
			i++
		case c == '|':
			j := i + 1
			for j < len(s) && s[j] != '|' {
				j++
			}
			toks = append(toks, s[i:j+1])
			i = j + 1
		default:
			j := i
			for j < len(s) && !strings.ContainsRune("() \n\t\r", rune(s[j])) {
				j++
			}
			toks = append(toks, s[i:j])
			i = j
		}
	}
	return toks
}

// parseValue parses a constant: #x.., #b.., true, false, (_ bvN W)
func parseValue(toks []string) (uint64, int) {
	if len(toks) == 0 {
		return 0, 0
	}
	t := toks[0]
	switch {
	case strings.HasPrefix(t, "#x"):
		v, _ := strconv.ParseUint(t[2:], 16, 64)
		return v, 1
	case strings.HasPrefix(t, "#b"):
		v, _ := strconv.ParseUint(t[2:], 2, 64)
		return v, 1
	case t == "true":
		return 1, 1
	case t == "false":
		return 0, 1
	case t == "(":
		// (_ bv123 8)
		if len(toks) >= 5 && toks[1] == "_" && strings.HasPrefix(toks[2], "bv") {
			v, _ := strconv.ParseUint(toks[2][2:], 10, 64)
			return v, 5
		}
		// skip balanced
		d := 0
		for i, x := range toks {
			if x == "(" {
				d++
			} else if x == ")" {
				d--
				if d == 0 {
					return 0, i + 1
				}
			}
		}
	}
	return 0, 1
}
