package main

// Environment stubs: math/bits, bytes, errors/fmt, sync, time, context, crypto, logging ...
// Every stub here is part of each claim (listed in the evidence under stubs_used).

import (
	"crypto/sha1"
	"fmt"
	"go/types"
	"hash/crc32"
	"sort"
	"strings"

	"golang.org/x/tools/go/ssa"
)

// ---- host errors ----

type errObj struct {
	msg   string
	wraps []Value // wrapped errors (Iface values)
}

func (e *Exec) newHostError(msg string, wraps ...Value) Value {
	return Iface{t: e.prog.hostErrType, v: &Host{kind: "error", data: &errObj{msg: msg, wraps: wraps}}}
}

func (e *Exec) callHostMethod(caller *frame, m *hostMethod, args []Value) Value {
	switch m.recv.kind {
	case "error":
		eo := m.recv.data.(*errObj)
		switch m.name {
		case "Error":
			return Str{s: eo.msg}
		case "Unwrap":
			if len(eo.wraps) > 0 {
				return eo.wraps[0]
			}
			return Iface{}
		}
	case "ctx":
		return e.ctxMethod(caller, m.recv.data.(*ctxObj), m.name, args)
	case "hash":
		return e.hashMethod(caller, m.recv.data.(*hashState), m.name, args)
	case "rtype":
		return e.rtypeMethod(caller, m.recv.data.(types.Type), m.name, args)
	}
	panic(e.unsupported("host method %s.%s", m.recv.kind, m.name))
}

// errorString renders an error value's message when it is concrete enough (for Errorf composition).
func (e *Exec) errorText(caller *frame, v Value) string {
	it, ok := v.(Iface)
	if !ok || it.t == nil {
		return "<nil>"
	}
	if h, ok := it.v.(*Host); ok {
		if eo, ok := h.data.(*errObj); ok {
			return eo.msg
		}
		return h.kind
	}
	if it.t == e.prog.runtimeErrType {
		if s, ok := it.v.(Str); ok && s.IsConcrete() {
			return s.s
		}
		return "runtime error"
	}
	// call the Error method of the dynamic type
	errM := e.prog.errorIface.Method(0)
	f := e.prog.lookupMethod(it.t, errM)
	if f == nil {
		return "<" + it.t.String() + ">"
	}
	var res Value
	func() {
		defer func() {
			if r := recover(); r != nil {
				switch r.(type) {
				case goPanic, summaryAbort:
					res = Str{s: "<error text unavailable>"}
				default:
					panic(r)
				}
			}
		}()
		res = e.call(caller, 0, f, []Value{it.v})
	}()
	if s, ok := res.(Str); ok && s.IsConcrete() {
		return s.s
	}
	return "<symbolic error text>"
}

// errorsIs implements errors.Is over host errors and interpreted error values.
func (e *Exec) errorsIs(caller *frame, err, target Value, depth int) *Term {
	ei, ok := err.(Iface)
	if !ok || ei.t == nil {
		ti, _ := target.(Iface)
		return e.tt.Bool(ti.t == nil)
	}
	ti := target.(Iface)
	if ti.t != nil && types.Comparable(ti.t) {
		if types.Identical(ei.t, ti.t) || (ei.t == e.prog.hostErrType && ti.t == e.prog.hostErrType) {
			eq := e.equalVals(nil, ei, ti)
			if !eq.IsFalse() {
				if eq.IsTrue() {
					return eq
				}
				if e.branch(eq) {
					return e.tt.True
				}
			}
		}
	}
	if depth > 16 {
		return e.tt.False
	}
	// unwrap
	if h, ok := ei.v.(*Host); ok {
		if eo, ok := h.data.(*errObj); ok {
			for _, w := range eo.wraps {
				if r := e.errorsIs(caller, w, target, depth+1); r.IsTrue() {
					return r
				}
			}
		}
		return e.tt.False
	}
	// interpreted error type with an Unwrap() error method
	ms := e.prog.prog.MethodSets.MethodSet(ei.t)
	if sel := ms.Lookup(nil, "Unwrap"); sel != nil {
		f := e.prog.prog.MethodValue(sel)
		if f != nil && f.Signature.Results().Len() == 1 {
			inner := e.call(caller, 0, f, []Value{ei.v})
			if _, isI := inner.(Iface); isI {
				return e.errorsIs(caller, inner, target, depth+1)
			}
		}
	}
	return e.tt.False
}

// ---- fmt ----

// formatArgs renders a Printf-style format with the engine's best-effort textual values. The result is
// a concrete string; symbolic pieces are rendered as placeholders (formatting is never the subject).
func (e *Exec) sprintf(caller *frame, format string, args []Value) string {
	var sb strings.Builder
	ai := 0
	for i := 0; i < len(format); i++ {
		c := format[i]
		if c != '%' {
			sb.WriteByte(c)
			continue
		}
		i++
		for i < len(format) && strings.ContainsRune("+-# 0123456789.[]*", rune(format[i])) {
			i++
		}
		if i >= len(format) {
			break
		}
		verb := format[i]
		if verb == '%' {
			sb.WriteByte('%')
			continue
		}
		if ai >= len(args) {
			sb.WriteString("%!" + string(verb) + "(MISSING)")
			continue
		}
		sb.WriteString(e.fmtValue(caller, args[ai], verb))
		ai++
	}
	return sb.String()
}

func (e *Exec) fmtValue(caller *frame, v Value, verb byte) string {
	if it, ok := v.(Iface); ok {
		if it.t == nil {
			return "<nil>"
		}
		if e.prog.implements(it.t, e.prog.errorIface) {
			return e.errorText(caller, it)
		}
		v = it.v
	}
	switch x := v.(type) {
	case *Term:
		if x.IsConst() {
			if x.IsBool() {
				return fmt.Sprint(x.IsTrue())
			}
			switch verb {
			case 'x':
				return fmt.Sprintf("%x", x.ConstU())
			case 'q', 'c':
				return fmt.Sprintf("%q", rune(x.ConstS()))
			}
			return fmt.Sprint(x.ConstS())
		}
		return "<sym>"
	case Str:
		if x.IsConcrete() {
			if verb == 'q' {
				return fmt.Sprintf("%q", x.s)
			}
			if verb == 'x' {
				return fmt.Sprintf("%x", x.s)
			}
			return x.s
		}
		return "<symstr>"
	case Float:
		return fmt.Sprint(x.f)
	}
	return "<" + fmt.Sprintf("%T", v) + ">"
}

// ---- registration ----

func reg(name string, f intrinsicFn) { intrinsics[name] = f }

func tupleOf(vs ...Value) Value { return Tuple(vs) }

func (e *Exec) intT(v int64) *Term { return e.tt.BV(64, uint64(v)) }

// bitsLen builds the bit length of x (position of the highest set bit + 1) as a term of width 64.
func (e *Exec) bitsLen(x *Term) *Term {
	w := x.W()
	if x.IsConst() {
		n := 0
		for v := x.ConstU(); v != 0; v >>= 1 {
			n++
		}
		return e.intT(int64(n))
	}
	res := e.intT(0)
	for i := 0; i < w; i++ {
		bit := e.tt.Eq(e.tt.Extract(x, i, i), e.tt.BV(1, 1))
		res = e.tt.Ite(bit, e.intT(int64(i+1)), res)
	}
	return res
}

func init() {
	// math/bits
	for _, n := range []string{"math/bits.Len", "math/bits.Len64", "math/bits.Len32", "math/bits.Len16", "math/bits.Len8"} {
		reg(n, func(e *Exec, c *frame, fn *ssa.Function, a []Value) Value { return e.bitsLen(a[0].(*Term)) })
	}
	for _, n := range []string{"math/bits.TrailingZeros", "math/bits.TrailingZeros64", "math/bits.TrailingZeros32", "math/bits.TrailingZeros16", "math/bits.TrailingZeros8"} {
		reg(n, func(e *Exec, c *frame, fn *ssa.Function, a []Value) Value {
			x := a[0].(*Term)
			w := x.W()
			res := e.intT(int64(w))
			for i := w - 1; i >= 0; i-- {
				bit := e.tt.Eq(e.tt.Extract(x, i, i), e.tt.BV(1, 1))
				res = e.tt.Ite(bit, e.intT(int64(i)), res)
			}
			return res
		})
	}
	for _, n := range []string{"math/bits.OnesCount", "math/bits.OnesCount64", "math/bits.OnesCount32", "math/bits.OnesCount16", "math/bits.OnesCount8"} {
		reg(n, func(e *Exec, c *frame, fn *ssa.Function, a []Value) Value {
			x := a[0].(*Term)
			res := e.intT(0)
			for i := 0; i < x.W(); i++ {
				res = e.tt.Bin(OpAdd, res, e.tt.ZExt(e.tt.Extract(x, i, i), 64))
			}
			return res
		})
	}
	reg("math/bits.ReverseBytes64", func(e *Exec, c *frame, fn *ssa.Function, a []Value) Value {
		x := a[0].(*Term)
		var res *Term
		for i := 0; i < 8; i++ {
			b := e.tt.Extract(x, i*8+7, i*8)
			if res == nil {
				res = b
			} else {
				res = e.tt.Concat(res, b)
			}
		}
		return res
	})
	reg("math/bits.ReverseBytes32", func(e *Exec, c *frame, fn *ssa.Function, a []Value) Value {
		x := a[0].(*Term)
		var res *Term
		for i := 0; i < 4; i++ {
			b := e.tt.Extract(x, i*8+7, i*8)
			if res == nil {
				res = b
			} else {
				res = e.tt.Concat(res, b)
			}
		}
		return res
	})
	reg("math/bits.ReverseBytes16", func(e *Exec, c *frame, fn *ssa.Function, a []Value) Value {
		x := a[0].(*Term)
		return e.tt.Concat(e.tt.Extract(x, 7, 0), e.tt.Extract(x, 15, 8))
	})

	// bytes / bytealg
	bytesEqual := func(e *Exec, c *frame, fn *ssa.Function, a []Value) Value {
		x, y := a[0].(Slice), a[1].(Slice)
		if x.len != y.len {
			return e.tt.False
		}
		xb, yb := e.byteTerms(x), e.byteTerms(y)
		cs := make([]*Term, len(xb))
		for i := range xb {
			cs[i] = e.tt.Eq(xb[i], yb[i])
		}
		return e.tt.And(cs...)
	}
	reg("bytes.Equal", bytesEqual)
	reg("internal/bytealg.Equal", bytesEqual)
	reg("bytes.Compare", func(e *Exec, c *frame, fn *ssa.Function, a []Value) Value {
		x, y := e.mkStr(e.byteTerms(a[0].(Slice))), e.mkStr(e.byteTerms(a[1].(Slice)))
		lt := e.strLess(x, y)
		gt := e.strLess(y, x)
		return e.tt.Ite(lt, e.intT(-1), e.tt.Ite(gt, e.intT(1), e.intT(0)))
	})
	reg("internal/bytealg.IndexByteString", func(e *Exec, c *frame, fn *ssa.Function, a []Value) Value {
		s := a[0].(Str)
		b := a[1].(*Term)
		bs := e.strBytes(s)
		res := e.intT(-1)
		for i := len(bs) - 1; i >= 0; i-- {
			res = e.tt.Ite(e.tt.Eq(bs[i], b), e.intT(int64(i)), res)
		}
		return res
	})
	reg("internal/bytealg.IndexByte", func(e *Exec, c *frame, fn *ssa.Function, a []Value) Value {
		bs := e.byteTerms(a[0].(Slice))
		b := a[1].(*Term)
		res := e.intT(-1)
		for i := len(bs) - 1; i >= 0; i-- {
			res = e.tt.Ite(e.tt.Eq(bs[i], b), e.intT(int64(i)), res)
		}
		return res
	})
	reg("internal/bytealg.CountString", func(e *Exec, c *frame, fn *ssa.Function, a []Value) Value {
		s := a[0].(Str)
		b := a[1].(*Term)
		res := e.intT(0)
		for _, x := range e.strBytes(s) {
			res = e.tt.Bin(OpAdd, res, e.tt.Ite(e.tt.Eq(x, b), e.intT(1), e.intT(0)))
		}
		return res
	})
	reg("internal/stringslite.Index", func(e *Exec, c *frame, fn *ssa.Function, a []Value) Value {
		s, sub := a[0].(Str), a[1].(Str)
		if !s.IsConcrete() || !sub.IsConcrete() {
			panic(e.unsupported("strings.Index on symbolic strings"))
		}
		return e.intT(int64(strings.Index(s.s, sub.s)))
	})
	reg("strings.Index", intrinsics["internal/stringslite.Index"])

	// errors / fmt
	reg("errors.Is", func(e *Exec, c *frame, fn *ssa.Function, a []Value) Value {
		return e.errorsIs(c, a[0], a[1], 0)
	})
	reg("errors.Unwrap", func(e *Exec, c *frame, fn *ssa.Function, a []Value) Value {
		it := a[0].(Iface)
		if h, ok := it.v.(*Host); ok {
			if eo, ok := h.data.(*errObj); ok && len(eo.wraps) > 0 {
				return eo.wraps[0]
			}
		}
		return Iface{}
	})
	reg("fmt.Errorf", func(e *Exec, c *frame, fn *ssa.Function, a []Value) Value {
		format := a[0].(Str)
		var args []Value
		if s, ok := a[1].(Slice); ok {
			args = e.sliceElems(s)
		}
		var wraps []Value
		if format.IsConcrete() {
			// %w operands are wrapped
			ai := 0
			f := format.s
			for i := 0; i < len(f); i++ {
				if f[i] != '%' {
					continue
				}
				i++
				for i < len(f) && strings.ContainsRune("+-# 0123456789.[]*", rune(f[i])) {
					i++
				}
				if i >= len(f) {
					break
				}
				if f[i] == '%' {
					continue
				}
				if f[i] == 'w' && ai < len(args) {
					wraps = append(wraps, args[ai])
				}
				ai++
			}
		}
		msg := "<symbolic format>"
		if format.IsConcrete() {
			msg = e.sprintf(c, format.s, args)
		}
		return e.newHostError(msg, wraps...)
	})
	reg("fmt.Sprintf", func(e *Exec, c *frame, fn *ssa.Function, a []Value) Value {
		format := a[0].(Str)
		var args []Value
		if s, ok := a[1].(Slice); ok {
			args = e.sliceElems(s)
		}
		if !format.IsConcrete() {
			return Str{s: "<symbolic format>"}
		}
		return Str{s: e.sprintf(c, format.s, args)}
	})
	reg("fmt.Sprint", func(e *Exec, c *frame, fn *ssa.Function, a []Value) Value {
		var parts []string
		if s, ok := a[0].(Slice); ok {
			for _, x := range e.sliceElems(s) {
				parts = append(parts, e.fmtValue(c, x, 'v'))
			}
		}
		return Str{s: strings.Join(parts, " ")}
	})
	for _, n := range []string{"fmt.Fprintf", "fmt.Printf", "fmt.Fprintln", "fmt.Println", "fmt.Fprint", "fmt.Print"} {
		reg(n, func(e *Exec, c *frame, fn *ssa.Function, a []Value) Value {
			return tupleOf(e.intT(0), Iface{})
		})
	}

	// crc32: concrete arguments use the real function; symbolic ones an uninterpreted function per
	// (polynomial, length).
	reg("hash/crc32.MakeTable", func(e *Exec, c *frame, fn *ssa.Function, a []Value) Value {
		poly := a[0].(*Term)
		if !poly.IsConst() {
			panic(e.unsupported("crc32.MakeTable with symbolic polynomial"))
		}
		obj := e.newObject(nil, e.tt.BV(32, poly.ConstU()), "crc32.Table")
		obj.label = "crc32.Table"
		return Ptr{obj: obj}
	})
	crcFn := func(e *Exec, crc *Term, tab Ptr, data Slice) Value {
		if tab.IsNil() {
			panic(e.goPanic("runtime error: invalid memory address or nil pointer dereference"))
		}
		polyT, ok := tab.obj.v.(*Term)
		if !ok {
			panic(e.unsupported("crc32 with a table not made by MakeTable"))
		}
		bs := e.byteTerms(data)
		conc := crc.IsConst()
		raw := make([]byte, len(bs))
		for i, b := range bs {
			if !b.IsConst() {
				conc = false
				break
			}
			raw[i] = byte(b.c)
		}
		if conc {
			return e.tt.BV(32, uint64(crc32.Update(uint32(crc.ConstU()), crc32.MakeTable(uint32(polyT.ConstU())), raw)))
		}
		name := fmt.Sprintf("uf_crc32_%x_len%d", polyT.ConstU(), len(bs))
		args := append([]*Term{crc}, bs...)
		return e.tt.App(name, Sort{32}, args...)
	}
	reg("hash/crc32.Checksum", func(e *Exec, c *frame, fn *ssa.Function, a []Value) Value {
		return crcFn(e, e.tt.BV(32, 0), a[1].(Ptr), a[0].(Slice))
	})
	reg("hash/crc32.Update", func(e *Exec, c *frame, fn *ssa.Function, a []Value) Value {
		return crcFn(e, a[0].(*Term), a[1].(Ptr), a[2].(Slice))
	})
	reg("sort.Slice", func(e *Exec, c *frame, fn *ssa.Function, a []Value) Value {
		panic(e.unsupported("sort.Slice"))
	})
	_ = sort.Ints
}

// globalInit provides initial values for selected standard-library globals without running their
// package initialisers.
func (p *Program) globalInit(e *Exec, g *ssa.Global) (Value, bool) {
	if g.Pkg == nil {
		return nil, false
	}
	switch g.Pkg.Pkg.Path() + "." + g.Name() {
	case "io.EOF":
		return e.hostErrSingleton("EOF"), true
	case "io.ErrShortWrite":
		return e.hostErrSingleton("short write"), true
	case "io.ErrUnexpectedEOF":
		return e.hostErrSingleton("unexpected EOF"), true
	case "context.Canceled":
		return e.hostErrSingleton("context canceled"), true
	case "context.DeadlineExceeded":
		return e.hostErrSingleton("context deadline exceeded"), true
	case "net.ErrClosed", "internal/poll.ErrNetClosing":
		return e.hostErrSingleton("use of closed network connection"), true
	}
	return nil, false
}

func (e *Exec) hostErrSingleton(msg string) Value {
	key := "errsingleton:" + msg
	if v, ok := e.hostState[key]; ok {
		return v.(Value)
	}
	v := e.newHostError(msg)
	e.hostState[key] = v
	return v
}

// ---- unique ----

type uniqueEntry struct {
	v   Value
	obj *Object
}

func init() {
	reg("unique.Make", func(e *Exec, c *frame, fn *ssa.Function, a []Value) Value {
		t := fn.Signature.Params().At(0).Type()
		key := "unique:" + t.String()
		var tab []uniqueEntry
		if x, ok := e.hostState[key]; ok {
			tab = x.([]uniqueEntry)
		}
		for _, en := range tab {
			eq := e.equalVals(t, en.v, a[0])
			if eq.IsTrue() || (!eq.IsFalse() && e.branch(eq)) {
				return &Agg{elems: []Value{Ptr{obj: en.obj}}}
			}
		}
		obj := e.newObject(t, e.copyVal(a[0]), "unique")
		obj.birth = 0
		tab = append(tab, uniqueEntry{e.copyVal(a[0]), obj})
		e.hostState[key] = tab
		return &Agg{elems: []Value{Ptr{obj: obj}}}
	})
}

// ---- crypto: sha1 (uninterpreted when symbolic), rand (fresh symbols), ed25519 (uninterpreted) ----

type hashState struct {
	kind string
	data []*Term
}

func (e *Exec) newHashIface(kind string) Value {
	return Iface{t: e.prog.hostHashType, v: &Host{kind: "hash", data: &hashState{kind: kind}}}
}

// sha1Digest returns the 20 digest bytes of the given input bytes.
func (e *Exec) sha1Digest(in []*Term) []*Term {
	conc := true
	raw := make([]byte, len(in))
	for i, b := range in {
		if !b.IsConst() {
			conc = false
			break
		}
		raw[i] = byte(b.c)
	}
	out := make([]*Term, 20)
	ckey := fmt.Sprintf("sha1conc:%d", len(in))
	ukey := fmt.Sprintf("sha1uf:%d", len(in))
	digestEq := func(a, b []*Term) *Term {
		cs := make([]*Term, 20)
		for i := range cs {
			cs[i] = e.tt.Eq(a[i], b[i])
		}
		return e.tt.And(cs...)
	}
	if conc {
		d := sha1.Sum(raw)
		for i := range out {
			out[i] = e.tt.BV(8, uint64(d[i]))
		}
		// collision-freeness also links real digests and uninterpreted ones: an earlier symbolic input
		// of the same length has this digest only if it is this input
		if !e.cfg.HashTransparent {
			ufApps, _ := e.hostState[ukey].([][2][]*Term)
			for _, ua := range ufApps {
				e.addPC(e.tt.Implies(digestEq(ua[1], out), e.bytesEq(ua[0], in)))
			}
			cApps, _ := e.hostState[ckey].([][2][]*Term)
			e.hostState[ckey] = append(cApps, [2][]*Term{append([]*Term{}, in...), append([]*Term{}, out...)})
		}
		return out
	}
	if e.cfg.HashTransparent {
		// collision-freedom made literal: the digest *is* the input (its length differs from 20, which the
		// entries using this model must not depend on)
		e.stubUsed("crypto/sha1 modelled as the identity on its input (collision-free by construction; digest length not 20)")
		return append([]*Term(nil), in...)
	}
	ufo := e.ufBytes("uf_sha1", in, 20, true)
	copy(out, ufo)
	cApps, _ := e.hostState[ckey].([][2][]*Term)
	for _, ca := range cApps {
		e.addPC(e.tt.Implies(digestEq(out, ca[1]), e.bytesEq(in, ca[0])))
	}
	ufApps, _ := e.hostState[ukey].([][2][]*Term)
	e.hostState[ukey] = append(ufApps, [2][]*Term{append([]*Term{}, in...), append([]*Term{}, out...)})
	e.stubUsed("crypto/sha1 as uninterpreted function (injective over the applications on a path, concrete ones included)")
	return out
}

func (e *Exec) stubUsed(s string) {
	e.prog.mu.Lock()
	e.prog.stubsUsed[s] = true
	e.prog.mu.Unlock()
}

func (e *Exec) hashMethod(caller *frame, h *hashState, name string, args []Value) Value {
	switch name {
	case "Write":
		bs := e.byteTerms(args[0].(Slice))
		h.data = append(h.data, bs...)
		return tupleOf(e.intT(int64(len(bs))), Iface{})
	case "WriteString":
		bs := e.strBytes(args[0].(Str))
		h.data = append(h.data, bs...)
		return tupleOf(e.intT(int64(len(bs))), Iface{})
	case "Reset":
		h.data = nil
		return nil
	case "Size":
		return e.intT(20)
	case "BlockSize":
		return e.intT(64)
	case "Sum":
		d := e.sha1Digest(h.data)
		vals := make([]Value, len(d))
		for i, x := range d {
			vals[i] = x
		}
		return e.appendValues(args[0].(Slice), vals, types.Typ[types.Byte])
	}
	panic(e.unsupported("hash method %s", name))
}

// appendValues appends element values to a slice with Go's append semantics.
func (e *Exec) appendValues(s Slice, add []Value, et types.Type) Slice {
	if len(add) == 0 {
		return s
	}
	n := s.len + len(add)
	if n <= s.cap && !s.IsNil() {
		e.noteWrite(s.obj)
		arr := e.sliceBacking(s)
		for i, x := range add {
			arr.elems[s.off+s.len+i] = x
		}
		return Slice{obj: s.obj, path: s.path, off: s.off, len: n, cap: s.cap}
	}
	newCap := s.cap * 2
	if newCap < n {
		newCap = n
	}
	arr := &Agg{elems: make([]Value, newCap)}
	for i, x := range e.sliceElems(s) {
		arr.elems[i] = e.copyVal(x)
	}
	for i, x := range add {
		arr.elems[s.len+i] = x
	}
	for i := n; i < newCap; i++ {
		arr.elems[i] = e.zero(et)
	}
	obj := e.newObject(types.NewArray(et, int64(newCap)), arr, "append")
	return Slice{obj: obj, len: n, cap: newCap}
}

func init() {
	reg("crypto/sha1.New", func(e *Exec, c *frame, fn *ssa.Function, a []Value) Value { return e.newHashIface("sha1") })
	reg("(crypto.Hash).New", func(e *Exec, c *frame, fn *ssa.Function, a []Value) Value {
		h := a[0].(*Term)
		if !h.IsConst() || h.ConstU() != 3 {
			panic(e.unsupported("crypto.Hash.New for hash other than SHA1"))
		}
		return e.newHashIface("sha1")
	})
	reg("crypto/sha1.Sum", func(e *Exec, c *frame, fn *ssa.Function, a []Value) Value {
		d := e.sha1Digest(e.byteTerms(a[0].(Slice)))
		out := &Agg{elems: make([]Value, 20)}
		for i, x := range d {
			out.elems[i] = x
		}
		return out
	})
	randRead := func(e *Exec, c *frame, fn *ssa.Function, a []Value) Value {
		s := a[0].(Slice)
		if s.len > 0 {
			e.noteWrite(s.obj)
			arr := e.sliceBacking(s)
			for i := 0; i < s.len; i++ {
				arr.elems[s.off+i] = e.freshVar("rnd8", 8)
			}
		}
		e.stubUsed("crypto/rand, math/rand: fresh unconstrained symbols")
		return tupleOf(e.intT(int64(s.len)), Iface{})
	}
	reg("crypto/rand.Read", randRead)
	reg("math/rand.Read", randRead)
	reg("math/rand.Intn", func(e *Exec, c *frame, fn *ssa.Function, a []Value) Value {
		n := a[0].(*Term)
		v := e.freshVar("rnd64", 64)
		e.addPC(e.tt.Cmp(OpULt, v, n))
		return v
	})
	reg("math/rand.Int63n", intrinsics["math/rand.Intn"])
}


// ufBytes applies an uninterpreted function from a byte vector to outLen bytes. With injective set, the
// axiom "equal outputs imply equal inputs" is added for every pair of applications on the current path.
func (e *Exec) ufBytes(name string, in []*Term, outLen int, injective bool) []*Term {
	out := make([]*Term, outLen)
	base := fmt.Sprintf("%s_len%d", name, len(in))
	for i := range out {
		out[i] = e.tt.App(fmt.Sprintf("%s_b%d", base, i), Sort{8}, in...)
	}
	if !injective {
		return out
	}
	key := "ufapps:" + base
	var apps [][]*Term
	if x, ok := e.hostState[key]; ok {
		apps = x.([][]*Term)
	}
	for _, prev := range apps {
		argsEq := e.bytesEq(prev, in)
		if argsEq.IsTrue() {
			continue
		}
		dig := make([]*Term, outLen)
		for i := range dig {
			dig[i] = e.tt.Eq(e.tt.App(fmt.Sprintf("%s_b%d", base, i), Sort{8}, prev...), out[i])
		}
		e.addPC(e.tt.Implies(e.tt.And(dig...), argsEq))
	}
	apps = append(apps, in)
	e.hostState[key] = apps
	return out
}

// bytesEq is the conjunction of bytewise equalities, except that a run of bytes that are exactly the
// big-endian bytes of one wider term on both sides is compared as that wider term (same meaning,
// far cheaper for the integer-encoded back end).
func (e *Exec) bytesEq(a, b []*Term) *Term {
	wide := func(ts []*Term, i int) (*Term, int) {
		t := ts[i]
		if t.op != OpExtract {
			return nil, 0
		}
		x := t.args[0]
		n := x.sort.W / 8
		if x.sort.W%8 != 0 || n < 2 || i+n > len(ts) {
			return nil, 0
		}
		for k := 0; k < n; k++ {
			u := ts[i+k]
			hi := x.sort.W - 1 - 8*k
			if u.op != OpExtract || u.args[0] != x || u.c != uint64(hi)<<8|uint64(hi-7) {
				return nil, 0
			}
		}
		return x, n
	}
	var cs []*Term
	for i := 0; i < len(a); {
		xa, na := wide(a, i)
		xb, nb := wide(b, i)
		if xa != nil && xb != nil && na == nb {
			cs = append(cs, e.tt.Eq(xa, xb))
			i += na
			continue
		}
		cs = append(cs, e.tt.Eq(a[i], b[i]))
		i++
	}
	return e.tt.And(cs...)
}

// opaqueString: the textual form of symbolic bytes is not modelled; it is a fixed-length string of
// uninterpreted, injective bytes (formatting is never the subject of a property).
func (e *Exec) opaqueString(kind string, in []*Term) Str {
	e.stubUsed("string forms of symbolic IPs/addresses: opaque injective strings (" + kind + ")")
	return e.mkStr(e.ufBytes("uf_str_"+kind, in, 8, true))
}

func allConst(ts []*Term) bool {
	for _, t := range ts {
		if !t.IsConst() {
			return false
		}
	}
	return true
}

func init() {
	reg("(net.IP).String", func(e *Exec, c *frame, fn *ssa.Function, a []Value) Value {
		bs := e.byteTerms(a[0].(Slice))
		if allConst(bs) {
			return e.runFunction(c, 0, fn, a, nil)
		}
		return e.opaqueString(fmt.Sprintf("ip%d", len(bs)), bs)
	})
	reg("(*net.UDPAddr).String", func(e *Exec, c *frame, fn *ssa.Function, a []Value) Value {
		p := a[0].(Ptr)
		if p.IsNil() {
			return Str{s: "<nil>"}
		}
		ua := e.loadRaw(p).(*Agg)
		ip := ua.elems[0].(Slice)
		port := ua.elems[1].(*Term)
		bs := e.byteTerms(ip)
		if allConst(bs) && port.IsConst() {
			return e.runFunction(c, 0, fn, a, nil)
		}
		in := append(append([]*Term{}, bs...), e.tt.Extract(port, 15, 8), e.tt.Extract(port, 7, 0))
		return e.opaqueString(fmt.Sprintf("udp%d", len(bs)), in)
	})
	reg("(unique.Handle).Value", func(e *Exec, c *frame, fn *ssa.Function, a []Value) Value {
		h := a[0].(*Agg)
		return e.load(h.elems[0].(Ptr))
	})
}

// ---- hash/maphash: uninterpreted, collision-free over the applications on a path ----

type maphashState struct {
	seed *Term
	data []*Term
}

func (e *Exec) maphashOf(p Ptr) *maphashState {
	key := fmt.Sprintf("maphash:%d:%v", p.obj.id, p.path)
	if m, ok := e.hostState[key]; ok {
		return m.(*maphashState)
	}
	m := &maphashState{seed: e.tt.BV(64, 0)}
	e.hostState[key] = m
	return m
}

func init() {
	reg("hash/maphash.MakeSeed", func(e *Exec, c *frame, fn *ssa.Function, a []Value) Value {
		e.stubUsed("hash/maphash: uninterpreted function of (seed, bytes), assumed collision-free")
		return &Agg{elems: []Value{e.freshVar("seed64", 64)}}
	})
	reg("(*hash/maphash.Hash).SetSeed", func(e *Exec, c *frame, fn *ssa.Function, a []Value) Value {
		m := e.maphashOf(a[0].(Ptr))
		m.seed = a[1].(*Agg).elems[0].(*Term)
		m.data = nil
		return nil
	})
	reg("(*hash/maphash.Hash).WriteString", func(e *Exec, c *frame, fn *ssa.Function, a []Value) Value {
		m := e.maphashOf(a[0].(Ptr))
		bs := e.strBytes(a[1].(Str))
		m.data = append(m.data, bs...)
		return tupleOf(e.intT(int64(len(bs))), Iface{})
	})
	reg("(*hash/maphash.Hash).Write", func(e *Exec, c *frame, fn *ssa.Function, a []Value) Value {
		m := e.maphashOf(a[0].(Ptr))
		bs := e.byteTerms(a[1].(Slice))
		m.data = append(m.data, bs...)
		return tupleOf(e.intT(int64(len(bs))), Iface{})
	})
	reg("(*hash/maphash.Hash).Reset", func(e *Exec, c *frame, fn *ssa.Function, a []Value) Value {
		e.maphashOf(a[0].(Ptr)).data = nil
		return nil
	})
	reg("(*hash/maphash.Hash).Sum64", func(e *Exec, c *frame, fn *ssa.Function, a []Value) Value {
		m := e.maphashOf(a[0].(Ptr))
		in := append([]*Term{}, m.data...)
		name := fmt.Sprintf("uf_maphash_len%d", len(in))
		args := append([]*Term{m.seed}, in...)
		out := e.tt.App(name, Sort{64}, args...)
		key := "ufapps:" + name
		var apps [][]*Term
		if x, ok := e.hostState[key]; ok {
			apps = x.([][]*Term)
		}
		for _, prev := range apps {
			same := make([]*Term, len(args))
			for i := range args {
				same[i] = e.tt.Eq(prev[i], args[i])
			}
			argsEq := e.tt.And(same...)
			if argsEq.IsTrue() {
				continue
			}
			e.addPC(e.tt.Implies(e.tt.Eq(e.tt.App(name, Sort{64}, prev...), out), argsEq))
		}
		// different lengths never collide either
		for k, x := range e.hostState {
			if strings.HasPrefix(k, "ufapps:uf_maphash_len") && k != key {
				for _, prev := range x.([][]*Term) {
					if prev[0] == m.seed {
						e.addPC(e.tt.Not(e.tt.Eq(e.tt.App(strings.TrimPrefix(k, "ufapps:"), Sort{64}, prev...), out)))
					}
				}
			}
		}
		apps = append(apps, args)
		e.hostState[key] = apps
		return out
	})
}
