package main

// sync.Mutex / RWMutex / Once / WaitGroup and time.Now as engine-level objects.
// Lock state is keyed by the address of the mutex; blocking goes through the scheduler, so a lock
// that can never be acquired shows up as a deadlock/leak verdict at quiescence.

import (
	"os"
	"fmt"

	"golang.org/x/tools/go/ssa"
)

func (e *Exec) muPtr(v Value) Ptr {
	p, ok := v.(Ptr)
	if !ok || p.IsNil() {
		panic(e.goPanic("runtime error: invalid memory address or nil pointer dereference (nil mutex)"))
	}
	return p
}

func (e *Exec) hostKeyed(kind string, p Ptr, mk func() interface{}) interface{} {
	key := fmt.Sprintf("%s:%d:%v", kind, p.obj.id, p.path)
	if m, ok := e.hostState[key]; ok {
		return m
	}
	m := mk()
	e.hostState[key] = m
	return m
}

func init() {
	lock := func(e *Exec, c *frame, fn *ssa.Function, a []Value) Value {
		e.stubUsed("sync.Mutex/RWMutex: engine-level lock objects; blocking via the symbolic scheduler")
		m := e.mutexOf(e.muPtr(a[0]))
		g := e.curG(c)
		if m.writer != nil || m.readers != 0 {
			// a writer that has to wait is pending: as in sync.RWMutex, readers arriving from now
			// on queue behind it (this is what makes recursive read locking a deadlock)
			m.pending++
			if os.Getenv("VERIF_DBG") != "" {
				fmt.Fprintf(os.Stderr, "DBG g%d pending writer on %s readers=%d\n", g.id, m.name, m.readers)
			}
			e.blockUntil(g, "mutex "+m.name, func() bool { return m.writer == nil && m.readers == 0 })
			m.pending--
		}
		m.writer = g
		return nil
	}
	unlock := func(e *Exec, c *frame, fn *ssa.Function, a []Value) Value {
		m := e.mutexOf(e.muPtr(a[0]))
		if m.writer == nil {
			panic(e.goPanic("fatal error: sync: unlock of unlocked mutex"))
		}
		m.writer = nil
		e.schedPoint(e.curG(c), "unlock")
		return nil
	}
	trylock := func(e *Exec, c *frame, fn *ssa.Function, a []Value) Value {
		m := e.mutexOf(e.muPtr(a[0]))
		if m.writer == nil && m.readers == 0 {
			m.writer = e.curG(c)
			return e.tt.True
		}
		return e.tt.False
	}
	reg("(*sync.Mutex).Lock", lock)
	reg("(*sync.Mutex).Unlock", unlock)
	reg("(*sync.Mutex).TryLock", trylock)
	reg("(*sync.RWMutex).Lock", lock)
	reg("(*sync.RWMutex).Unlock", unlock)
	reg("(*sync.RWMutex).TryLock", trylock)
	reg("(*sync.RWMutex).RLock", func(e *Exec, c *frame, fn *ssa.Function, a []Value) Value {
		m := e.mutexOf(e.muPtr(a[0]))
		g := e.curG(c)
		if m.readHolders[g] > 0 {
			// recursive read lock: the schedules in which a writer arrives between the two
			// acquisitions are the interesting ones, so the other goroutines may run first here
			e.recursionPoint(g, "recursive rlock "+m.name)
		}
		e.blockUntil(g, "rlock "+m.name, func() bool { return m.writer == nil && m.pending == 0 })
		m.readers++
		if m.readHolders == nil {
			m.readHolders = map[*Goroutine]int{}
		}
		m.readHolders[g]++
		return nil
	})
	reg("(*sync.RWMutex).RUnlock", func(e *Exec, c *frame, fn *ssa.Function, a []Value) Value {
		m := e.mutexOf(e.muPtr(a[0]))
		if m.readers <= 0 {
			panic(e.goPanic("fatal error: sync: RUnlock of unlocked RWMutex"))
		}
		m.readers--
		if g := e.curG(c); m.readHolders[g] > 0 {
			m.readHolders[g]--
		}
		e.schedPoint(e.curG(c), "runlock")
		return nil
	})
	reg("(*sync.Once).Do", func(e *Exec, c *frame, fn *ssa.Function, a []Value) Value {
		o := e.hostKeyed("once", e.muPtr(a[0]), func() interface{} { return &onceState{} }).(*onceState)
		if o.done {
			return nil
		}
		o.done = true
		e.call(c, 0, a[1], nil)
		return nil
	})
	reg("(*sync.WaitGroup).Add", func(e *Exec, c *frame, fn *ssa.Function, a []Value) Value {
		w := e.hostKeyed("wg", e.muPtr(a[0]), func() interface{} { return &wgState{} }).(*wgState)
		d := a[1].(*Term)
		if !d.IsConst() {
			panic(e.unsupported("WaitGroup.Add with symbolic delta"))
		}
		w.n += int(int64(d.c))
		if w.n < 0 {
			panic(e.goPanic("sync: negative WaitGroup counter"))
		}
		return nil
	})
	reg("(*sync.WaitGroup).Done", func(e *Exec, c *frame, fn *ssa.Function, a []Value) Value {
		w := e.hostKeyed("wg", e.muPtr(a[0]), func() interface{} { return &wgState{} }).(*wgState)
		w.n--
		if w.n < 0 {
			panic(e.goPanic("sync: negative WaitGroup counter"))
		}
		e.schedPoint(e.curG(c), "wg.Done")
		return nil
	})
	reg("(*sync.WaitGroup).Wait", func(e *Exec, c *frame, fn *ssa.Function, a []Value) Value {
		w := e.hostKeyed("wg", e.muPtr(a[0]), func() interface{} { return &wgState{} }).(*wgState)
		e.blockUntil(e.curG(c), "WaitGroup.Wait", func() bool { return w.n == 0 })
		return nil
	})

	// time.Now: an arbitrary non-decreasing instant (seconds since year 1 in ext, nanoseconds in wall,
	// no monotonic reading, UTC). Range: 2001-09-09 .. +4e9 s, so that interval arithmetic cannot wrap.
	reg("time.Now", func(e *Exec, c *frame, fn *ssa.Function, a []Value) Value { return e.timeNow() })
	reg("time.Sleep", func(e *Exec, c *frame, fn *ssa.Function, a []Value) Value { return nil })
}

type clockState struct {
	mono *Term
	wall *Term // seconds|nanoseconds as one 63-bit number
}

// timeNow: a reading of an arbitrary clock *with a monotonic component*, as the real time.Now returns:
//   wall = hasMonotonic | seconds-since-1885 (33 bits, arbitrary between 2001 and 2128) | nanoseconds (< 1e9)
//   ext  = monotonic nanoseconds, arbitrary but non-decreasing from one call to the next.
// Differences and comparisons of two such readings use only ext (as in package time), which keeps
// duration arithmetic linear. The wall-clock part is not tied to ext, but neither clock runs backwards.
func (e *Exec) timeNow() Value {
	if fr, ok := e.hostState["clock.frozen"].(*Agg); ok {
		return e.copyVal(fr)
	}
	e.stubUsed("time.Now: arbitrary wall reading (2001..2128) plus a monotonic reading; neither decreases between calls")
	tt := e.tt
	sec := e.freshVar("now_sec33", 33)
	nsec := e.freshVar("now_nsec30", 30)
	mono := e.freshVar("now_mono", 64)
	e.addPC(tt.Cmp(OpULe, tt.BV(33, 3660000000), sec))
	e.addPC(tt.Cmp(OpULe, sec, tt.BV(33, 7670000000)))
	e.addPC(tt.Cmp(OpULt, nsec, tt.BV(30, 1000000000)))
	e.addPC(tt.Cmp(OpSLe, tt.BV(64, 1), mono))
	e.addPC(tt.Cmp(OpSLe, mono, tt.BV(64, 1<<60)))
	w63 := tt.Concat(sec, nsec)
	if st, ok := e.hostState["clock"].(*clockState); ok {
		e.addPC(tt.Cmp(OpSLe, st.mono, mono))
		e.addPC(tt.Cmp(OpULe, st.wall, w63)) // the wall clock is not stepped backwards either
	}
	e.hostState["clock"] = &clockState{mono, w63}
	wall := tt.Concat(tt.BV(1, 1), w63)
	res := &Agg{elems: []Value{wall, mono, Ptr{}}}
	e.hostState["clock.last"] = res
	return res
}
