#!/bin/bash
# dev helper: t.sh <pkgdir> <harnessfile> <entry> [extra flags]
export GOFLAGS=-mod=mod GOPROXY=off GOSUMDB=off GOTOOLCHAIN=local
cd /verif/engine && go build -o /verif/bin/symgo . || exit 1
pkg=$1; h=$2; entry=$3; shift 3
pn=$(grep -m1 '^package ' $h | awk '{print $2}')
mkdir -p /tmp/symgo_rt_$pn
sed "s/PKGNAME/$pn/" /verif/harness/rt/zz_verif_rt.go.tmpl > /tmp/symgo_rt_$pn/zz_verif_rt.go
/verif/bin/symgo run -pkg $pkg -harness $h,/tmp/symgo_rt_$pn/zz_verif_rt.go -entry $entry "$@"
