package main

// Term layer: hash-consed SMT term DAG with local simplification and SMT-LIB2 printing.
// All scalars of the interpreted program (bools and fixed-width integers) are *Term values;
// constants are Terms too, so that one code path serves concrete and symbolic execution.

import (
	"fmt"
	"math/bits"
	"sort"
	"strconv"
	"strings"
)

type Op uint8

const (
	OpConst Op = iota
	OpVar
	OpNot
	OpAnd
	OpOr
	OpEq
	OpIte
	OpAdd
	OpSub
	OpMul
	OpUDiv
	OpURem
	OpSDiv
	OpSRem
	OpBvAnd
	OpBvOr
	OpBvXor
	OpShl
	OpLShr
	OpAShr
	OpBvNot
	OpNeg
	OpULt
	OpULe
	OpSLt
	OpSLe
	OpExtract
	OpConcat
	OpZExt
	OpSExt
	OpApp // uninterpreted function application
)

var opNames = map[Op]string{
	OpNot: "not", OpAnd: "and", OpOr: "or", OpEq: "=", OpIte: "ite",
	OpAdd: "bvadd", OpSub: "bvsub", OpMul: "bvmul", OpUDiv: "bvudiv", OpURem: "bvurem",
	OpSDiv: "bvsdiv", OpSRem: "bvsrem", OpBvAnd: "bvand", OpBvOr: "bvor", OpBvXor: "bvxor",
	OpShl: "bvshl", OpLShr: "bvlshr", OpAShr: "bvashr", OpBvNot: "bvnot", OpNeg: "bvneg",
	OpULt: "bvult", OpULe: "bvule", OpSLt: "bvslt", OpSLe: "bvsle", OpConcat: "concat",
}

// Sort: W == 0 means Bool, otherwise a bit-vector of width W (1..64).
type Sort struct{ W int }

func (s Sort) String() string {
	if s.W == 0 {
		return "Bool"
	}
	return fmt.Sprintf("(_ BitVec %d)", s.W)
}

var BoolSort = Sort{0}

type Term struct {
	id   int
	op   Op
	sort Sort
	args []*Term
	c    uint64 // constant value (masked to width); for Bool 0/1; for Extract: hi<<8|lo
	name string // variable or UF name
	// hasDiv marks terms containing division/remainder/multiplication by a large constant or a symbolic term
	hard bool
}

func (t *Term) IsConst() bool { return t.op == OpConst }
func (t *Term) IsBool() bool  { return t.sort.W == 0 }
func (t *Term) W() int        { return t.sort.W }

// ConstU returns the unsigned constant value; caller must check IsConst.
func (t *Term) ConstU() uint64 { return t.c }

// ConstS returns the sign-extended constant value.
func (t *Term) ConstS() int64 {
	w := t.sort.W
	if w == 0 || w == 64 {
		return int64(t.c)
	}
	sh := uint(64 - w)
	return int64(t.c<<sh) >> sh
}

func (t *Term) IsTrue() bool  { return t.op == OpConst && t.sort.W == 0 && t.c == 1 }
func (t *Term) IsFalse() bool { return t.op == OpConst && t.sort.W == 0 && t.c == 0 }

type ufDecl struct {
	name string
	args []Sort
	ret  Sort
}

type TermTable struct {
	tab   map[string]*Term
	all   []*Term
	ufs   map[string]*ufDecl
	ufSeq []*ufDecl
	vars  []*Term
	True  *Term
	False *Term
}

func NewTermTable() *TermTable {
	tt := &TermTable{tab: map[string]*Term{}, ufs: map[string]*ufDecl{}}
	tt.True = tt.Bool(true)
	tt.False = tt.Bool(false)
	return tt
}

func mask(w int) uint64 {
	if w >= 64 {
		return ^uint64(0)
	}
	return (uint64(1) << uint(w)) - 1
}

func (tt *TermTable) mk(op Op, sort Sort, c uint64, name string, args ...*Term) *Term {
	var sb strings.Builder
	sb.WriteByte(byte(op) + 'A')
	sb.WriteString(strconv.Itoa(sort.W))
	sb.WriteByte(':')
	if op == OpConst || op == OpExtract {
		sb.WriteString(strconv.FormatUint(c, 16))
	}
	if name != "" {
		sb.WriteString(name)
	}
	for _, a := range args {
		sb.WriteByte(',')
		sb.WriteString(strconv.Itoa(a.id))
	}
	k := sb.String()
	if t, ok := tt.tab[k]; ok {
		return t
	}
	t := &Term{id: len(tt.all), op: op, sort: sort, c: c, name: name, args: append([]*Term(nil), args...)}
	for _, a := range args {
		if a.hard {
			t.hard = true
		}
	}
	switch op {
	case OpUDiv, OpURem, OpSDiv, OpSRem:
		t.hard = true
	case OpMul:
		t.hard = true
	}
	tt.tab[k] = t
	tt.all = append(tt.all, t)
	if op == OpVar {
		tt.vars = append(tt.vars, t)
	}
	return t
}

func (tt *TermTable) Bool(b bool) *Term {
	if b {
		return tt.mk(OpConst, BoolSort, 1, "")
	}
	return tt.mk(OpConst, BoolSort, 0, "")
}

func (tt *TermTable) BV(w int, v uint64) *Term {
	if w <= 0 || w > 64 {
		panic(fmt.Sprintf("bad bv width %d", w))
	}
	return tt.mk(OpConst, Sort{w}, v&mask(w), "")
}

func (tt *TermTable) Var(name string, s Sort) *Term {
	return tt.mk(OpVar, s, 0, name)
}

func (tt *TermTable) DeclareUF(name string, args []Sort, ret Sort) {
	if d, ok := tt.ufs[name]; ok {
		if len(d.args) != len(args) {
			panic("uf redeclared with different arity: " + name)
		}
		return
	}
	d := &ufDecl{name, args, ret}
	tt.ufs[name] = d
	tt.ufSeq = append(tt.ufSeq, d)
}

func (tt *TermTable) App(name string, ret Sort, args ...*Term) *Term {
	sorts := make([]Sort, len(args))
	allc := true
	for i, a := range args {
		sorts[i] = a.sort
		if !a.IsConst() {
			allc = false
		}
	}
	_ = allc
	tt.DeclareUF(name, sorts, ret)
	return tt.mk(OpApp, ret, 0, name, args...)
}

// ---- boolean connectives ----

func (tt *TermTable) Not(a *Term) *Term {
	if a.IsConst() {
		return tt.Bool(a.c == 0)
	}
	if a.op == OpNot {
		return a.args[0]
	}
	return tt.mk(OpNot, BoolSort, 0, "", a)
}

func (tt *TermTable) And(xs ...*Term) *Term {
	var out []*Term
	seen := map[int]bool{}
	for _, x := range xs {
		if x.IsConst() {
			if x.c == 0 {
				return tt.False
			}
			continue
		}
		if x.op == OpAnd {
			for _, y := range x.args {
				if !seen[y.id] {
					seen[y.id] = true
					out = append(out, y)
				}
			}
			continue
		}
		if !seen[x.id] {
			seen[x.id] = true
			out = append(out, x)
		}
	}
	for _, x := range out {
		if x.op == OpNot && seen[x.args[0].id] {
			return tt.False
		}
	}
	switch len(out) {
	case 0:
		return tt.True
	case 1:
		return out[0]
	}
	sort.Slice(out, func(i, j int) bool { return out[i].id < out[j].id })
	return tt.mk(OpAnd, BoolSort, 0, "", out...)
}

func (tt *TermTable) Or(xs ...*Term) *Term {
	var out []*Term
	seen := map[int]bool{}
	for _, x := range xs {
		if x.IsConst() {
			if x.c == 1 {
				return tt.True
			}
			continue
		}
		if x.op == OpOr {
			for _, y := range x.args {
				if !seen[y.id] {
					seen[y.id] = true
					out = append(out, y)
				}
			}
			continue
		}
		if !seen[x.id] {
			seen[x.id] = true
			out = append(out, x)
		}
	}
	for _, x := range out {
		if x.op == OpNot && seen[x.args[0].id] {
			return tt.True
		}
	}
	switch len(out) {
	case 0:
		return tt.False
	case 1:
		return out[0]
	}
	sort.Slice(out, func(i, j int) bool { return out[i].id < out[j].id })
	return tt.mk(OpOr, BoolSort, 0, "", out...)
}

func (tt *TermTable) Implies(a, b *Term) *Term { return tt.Or(tt.Not(a), b) }

func (tt *TermTable) Eq(a, b *Term) *Term {
	if a.sort != b.sort {
		panic(fmt.Sprintf("Eq sort mismatch %v vs %v", a.sort, b.sort))
	}
	if a == b {
		return tt.True
	}
	if a.IsConst() && b.IsConst() {
		return tt.Bool(a.c == b.c)
	}
	if a.IsBool() {
		if a.IsConst() {
			a, b = b, a
		}
		if b.IsConst() {
			if b.c == 1 {
				return a
			}
			return tt.Not(a)
		}
	}
	// ite(c, k1, k2) == k  with constants
	if b.IsConst() && a.op == OpIte {
		return tt.eqIteConst(a, b)
	}
	if a.IsConst() && b.op == OpIte {
		return tt.eqIteConst(b, a)
	}
	// zext(x) == const
	if b.IsConst() && a.op == OpZExt {
		x := a.args[0]
		if b.c > mask(x.sort.W) {
			return tt.False
		}
		return tt.Eq(x, tt.BV(x.sort.W, b.c))
	}
	if a.IsConst() && b.op == OpZExt {
		return tt.Eq(b, a)
	}
	if a.id > b.id {
		a, b = b, a
	}
	return tt.mk(OpEq, BoolSort, 0, "", a, b)
}

func (tt *TermTable) eqIteConst(ite, k *Term) *Term {
	c, x, y := ite.args[0], ite.args[1], ite.args[2]
	if x.IsConst() || y.IsConst() || x.op == OpIte || y.op == OpIte {
		// push equality inside when at least one arm is decided cheaply
		ex := tt.Eq(x, k)
		ey := tt.Eq(y, k)
		return tt.Ite(c, ex, ey)
	}
	a, b := ite, k
	if a.id > b.id {
		a, b = b, a
	}
	return tt.mk(OpEq, BoolSort, 0, "", a, b)
}

func (tt *TermTable) Ite(c, a, b *Term) *Term {
	if a.sort != b.sort {
		panic(fmt.Sprintf("Ite sort mismatch %v vs %v", a.sort, b.sort))
	}
	if c.IsConst() {
		if c.c == 1 {
			return a
		}
		return b
	}
	if a == b {
		return a
	}
	if a.IsBool() {
		if a.IsTrue() && b.IsFalse() {
			return c
		}
		if a.IsFalse() && b.IsTrue() {
			return tt.Not(c)
		}
		if a.IsTrue() {
			return tt.Or(c, b)
		}
		if a.IsFalse() {
			return tt.And(tt.Not(c), b)
		}
		if b.IsTrue() {
			return tt.Or(tt.Not(c), a)
		}
		if b.IsFalse() {
			return tt.And(c, a)
		}
	}
	if c.op == OpNot {
		return tt.Ite(c.args[0], b, a)
	}
	return tt.mk(OpIte, a.sort, 0, "", c, a, b)
}

// ---- bit-vector ops ----

func sext(v uint64, w int) int64 {
	if w >= 64 {
		return int64(v)
	}
	sh := uint(64 - w)
	return int64(v<<sh) >> sh
}

func (tt *TermTable) Bin(op Op, a, b *Term) *Term {
	if a.sort != b.sort {
		panic(fmt.Sprintf("Bin %v sort mismatch %v vs %v", opNames[op], a.sort, b.sort))
	}
	w := a.sort.W
	if w == 0 {
		panic("Bin on Bool")
	}
	m := mask(w)
	if a.IsConst() && b.IsConst() {
		x, y := a.c, b.c
		switch op {
		case OpAdd:
			return tt.BV(w, x+y)
		case OpSub:
			return tt.BV(w, x-y)
		case OpMul:
			return tt.BV(w, x*y)
		case OpUDiv:
			if y == 0 {
				return tt.BV(w, m)
			}
			return tt.BV(w, x/y)
		case OpURem:
			if y == 0 {
				return tt.BV(w, x)
			}
			return tt.BV(w, x%y)
		case OpSDiv:
			sx, sy := sext(x, w), sext(y, w)
			if sy == 0 {
				if sx < 0 {
					return tt.BV(w, 1)
				}
				return tt.BV(w, m)
			}
			if sy == -1 {
				return tt.BV(w, uint64(-sx))
			}
			return tt.BV(w, uint64(sx/sy))
		case OpSRem:
			sx, sy := sext(x, w), sext(y, w)
			if sy == 0 {
				return tt.BV(w, x)
			}
			if sy == -1 {
				return tt.BV(w, 0)
			}
			return tt.BV(w, uint64(sx%sy))
		case OpBvAnd:
			return tt.BV(w, x&y)
		case OpBvOr:
			return tt.BV(w, x|y)
		case OpBvXor:
			return tt.BV(w, x^y)
		case OpShl:
			if y >= uint64(w) {
				return tt.BV(w, 0)
			}
			return tt.BV(w, x<<y)
		case OpLShr:
			if y >= uint64(w) {
				return tt.BV(w, 0)
			}
			return tt.BV(w, x>>y)
		case OpAShr:
			sx := sext(x, w)
			if y >= uint64(w) {
				if sx < 0 {
					return tt.BV(w, m)
				}
				return tt.BV(w, 0)
			}
			return tt.BV(w, uint64(sx>>y))
		}
	}
	// identities
	switch op {
	case OpAdd:
		if a.IsConst() && a.c == 0 {
			return b
		}
		if b.IsConst() && b.c == 0 {
			return a
		}
		if a.IsConst() { // canonical: const on the right
			a, b = b, a
		}
		// (x + c1) + c2
		if b.IsConst() && a.op == OpAdd && a.args[1].IsConst() {
			return tt.Bin(OpAdd, a.args[0], tt.BV(w, a.args[1].c+b.c))
		}
	case OpSub:
		if b.IsConst() && b.c == 0 {
			return a
		}
		if a == b {
			return tt.BV(w, 0)
		}
		if b.IsConst() {
			return tt.Bin(OpAdd, a, tt.BV(w, -b.c))
		}
	case OpMul:
		if a.IsConst() {
			a, b = b, a
		}
		if b.IsConst() {
			if b.c == 0 {
				return b
			}
			if b.c == 1 {
				return a
			}
			if bits.OnesCount64(b.c) == 1 {
				return tt.Bin(OpShl, a, tt.BV(w, uint64(bits.TrailingZeros64(b.c))))
			}
		}
	case OpUDiv:
		if b.IsConst() && b.c == 1 {
			return a
		}
		if b.IsConst() && b.c != 0 && bits.OnesCount64(b.c) == 1 {
			return tt.Bin(OpLShr, a, tt.BV(w, uint64(bits.TrailingZeros64(b.c))))
		}
	case OpURem:
		if b.IsConst() && b.c != 0 && bits.OnesCount64(b.c) == 1 {
			return tt.Bin(OpBvAnd, a, tt.BV(w, b.c-1))
		}
	case OpSDiv:
		if b.IsConst() && b.c == 1 {
			return a
		}
	case OpBvAnd:
		if a.IsConst() {
			a, b = b, a
		}
		if b.IsConst() {
			if b.c == 0 {
				return b
			}
			if b.c == m {
				return a
			}
			// (zext x) & c where c covers all of x's bits
			if a.op == OpZExt && (b.c&mask(a.args[0].sort.W)) == mask(a.args[0].sort.W) {
				return a
			}
			if a.op == OpBvAnd && a.args[1].IsConst() {
				return tt.Bin(OpBvAnd, a.args[0], tt.BV(w, a.args[1].c&b.c))
			}
		}
		if a == b {
			return a
		}
	case OpBvOr:
		if a.IsConst() {
			a, b = b, a
		}
		if b.IsConst() {
			if b.c == 0 {
				return a
			}
			if b.c == m {
				return b
			}
		}
		if a == b {
			return a
		}
	case OpBvXor:
		if a.IsConst() {
			a, b = b, a
		}
		if b.IsConst() && b.c == 0 {
			return a
		}
		if a == b {
			return tt.BV(w, 0)
		}
	case OpShl, OpLShr, OpAShr:
		if b.IsConst() && b.c == 0 {
			return a
		}
		if a.IsConst() && a.c == 0 {
			return a
		}
		if b.IsConst() && b.c >= uint64(w) && op != OpAShr {
			return tt.BV(w, 0)
		}
		if b.IsConst() && op == OpLShr && a.op == OpZExt {
			// (zext x) >> k  where k >= width(x)  => 0
			if b.c >= uint64(a.args[0].sort.W) {
				return tt.BV(w, 0)
			}
		}
	}
	switch op {
	case OpAdd, OpMul, OpBvAnd, OpBvOr, OpBvXor:
		if !b.IsConst() && a.id > b.id {
			a, b = b, a
		}
	}
	t := tt.mk(op, a.sort, 0, "", a, b)
	if op == OpMul && b.IsConst() {
		// multiplication by a constant alone is shift-and-add for the bit-blaster (only division kernels go to the integer back end)
		if !a.hard {
			t.hard = false
		}
	}
	return t
}

func (tt *TermTable) BvNot(a *Term) *Term {
	if a.IsConst() {
		return tt.BV(a.sort.W, ^a.c)
	}
	if a.op == OpBvNot {
		return a.args[0]
	}
	return tt.mk(OpBvNot, a.sort, 0, "", a)
}

func (tt *TermTable) Neg(a *Term) *Term {
	if a.IsConst() {
		return tt.BV(a.sort.W, -a.c)
	}
	return tt.mk(OpNeg, a.sort, 0, "", a)
}

func (tt *TermTable) Cmp(op Op, a, b *Term) *Term {
	if a.sort != b.sort {
		panic(fmt.Sprintf("Cmp sort mismatch %v vs %v", a.sort, b.sort))
	}
	w := a.sort.W
	if a.IsConst() && b.IsConst() {
		switch op {
		case OpULt:
			return tt.Bool(a.c < b.c)
		case OpULe:
			return tt.Bool(a.c <= b.c)
		case OpSLt:
			return tt.Bool(sext(a.c, w) < sext(b.c, w))
		case OpSLe:
			return tt.Bool(sext(a.c, w) <= sext(b.c, w))
		}
	}
	if a == b {
		return tt.Bool(op == OpULe || op == OpSLe)
	}
	switch op {
	case OpULt:
		if b.IsConst() && b.c == 0 {
			return tt.False
		}
		if a.IsConst() && a.c == mask(w) {
			return tt.False
		}
	case OpULe:
		if a.IsConst() && a.c == 0 {
			return tt.True
		}
		if b.IsConst() && b.c == mask(w) {
			return tt.True
		}
	}
	// comparisons of zero-extended values against constants: range facts
	if a.op == OpZExt && b.IsConst() {
		xw := a.args[0].sort.W
		bs := sext(b.c, w)
		switch op {
		case OpSLt, OpULt:
			if (op == OpULt || bs >= 0) && b.c > mask(xw) {
				return tt.True
			}
			if op == OpSLt && bs <= 0 {
				return tt.False
			}
		case OpSLe, OpULe:
			if (op == OpULe || bs >= 0) && b.c >= mask(xw) {
				return tt.True
			}
			if op == OpSLe && bs < 0 {
				return tt.False
			}
		}
	}
	if b.op == OpZExt && a.IsConst() {
		xw := b.args[0].sort.W
		as := sext(a.c, w)
		switch op {
		case OpSLt:
			if as < 0 {
				return tt.True
			}
			if a.c >= mask(xw) {
				return tt.False
			}
		case OpSLe:
			if as <= 0 {
				return tt.True
			}
			if a.c > mask(xw) {
				return tt.False
			}
		case OpULt:
			if a.c >= mask(xw) {
				return tt.False
			}
		case OpULe:
			if a.c > mask(xw) {
				return tt.False
			}
		}
	}
	// ite with constant arms vs constant: push inside
	if b.IsConst() && a.op == OpIte && (a.args[1].IsConst() || a.args[2].IsConst()) {
		return tt.Ite(a.args[0], tt.Cmp(op, a.args[1], b), tt.Cmp(op, a.args[2], b))
	}
	if a.IsConst() && b.op == OpIte && (b.args[1].IsConst() || b.args[2].IsConst()) {
		return tt.Ite(b.args[0], tt.Cmp(op, a, b.args[1]), tt.Cmp(op, a, b.args[2]))
	}
	return tt.mk(op, BoolSort, 0, "", a, b)
}

func (tt *TermTable) Extract(a *Term, hi, lo int) *Term {
	w := hi - lo + 1
	if lo == 0 && w == a.sort.W {
		return a
	}
	if hi >= a.sort.W || lo < 0 || w <= 0 {
		panic(fmt.Sprintf("bad extract [%d:%d] of width %d", hi, lo, a.sort.W))
	}
	if a.IsConst() {
		return tt.BV(w, a.c>>uint(lo))
	}
	switch a.op {
	case OpZExt:
		x := a.args[0]
		if hi < x.sort.W {
			return tt.Extract(x, hi, lo)
		}
		if lo >= x.sort.W {
			return tt.BV(w, 0)
		}
		if lo == 0 {
			return tt.ZExt(x, w)
		}
	case OpSExt:
		x := a.args[0]
		if hi < x.sort.W {
			return tt.Extract(x, hi, lo)
		}
	case OpConcat:
		x, y := a.args[0], a.args[1] // x is high part
		if hi < y.sort.W {
			return tt.Extract(y, hi, lo)
		}
		if lo >= y.sort.W {
			return tt.Extract(x, hi-y.sort.W, lo-y.sort.W)
		}
	case OpExtract:
		ilo := int(a.c & 0xff)
		return tt.Extract(a.args[0], hi+ilo, lo+ilo)
	case OpBvAnd, OpBvOr, OpBvXor:
		if lo == 0 || a.args[1].IsConst() {
			return tt.Bin(a.op, tt.Extract(a.args[0], hi, lo), tt.Extract(a.args[1], hi, lo))
		}
	case OpAdd, OpSub, OpMul:
		if lo == 0 {
			return tt.Bin(a.op, tt.Extract(a.args[0], hi, 0), tt.Extract(a.args[1], hi, 0))
		}
	case OpShl:
		if lo == 0 && a.args[1].IsConst() {
			return tt.Bin(OpShl, tt.Extract(a.args[0], hi, 0), tt.BV(w, a.args[1].c))
		}
	case OpLShr:
		// extract[hi:lo](x >> k) = extract[hi+k:lo+k](x) if in range
		if a.args[1].IsConst() {
			k := int(a.args[1].c)
			if hi+k < a.sort.W {
				return tt.Extract(a.args[0], hi+k, lo+k)
			}
		}
	case OpIte:
		if a.args[1].IsConst() || a.args[2].IsConst() {
			return tt.Ite(a.args[0], tt.Extract(a.args[1], hi, lo), tt.Extract(a.args[2], hi, lo))
		}
	}
	return tt.mk(OpExtract, Sort{w}, uint64(hi)<<8|uint64(lo), "", a)
}

func (tt *TermTable) Concat(hi, lo *Term) *Term {
	w := hi.sort.W + lo.sort.W
	if w > 64 {
		panic("concat wider than 64")
	}
	if hi.IsConst() && lo.IsConst() {
		return tt.BV(w, hi.c<<uint(lo.sort.W)|lo.c)
	}
	if hi.IsConst() && hi.c == 0 {
		return tt.ZExt(lo, w)
	}
	return tt.mk(OpConcat, Sort{w}, 0, "", hi, lo)
}

func (tt *TermTable) ZExt(a *Term, w int) *Term {
	if w == a.sort.W {
		return a
	}
	if w < a.sort.W {
		return tt.Extract(a, w-1, 0)
	}
	if a.IsConst() {
		return tt.BV(w, a.c)
	}
	if a.op == OpZExt {
		return tt.ZExt(a.args[0], w)
	}
	if a.op == OpIte && (a.args[1].IsConst() || a.args[2].IsConst()) {
		return tt.Ite(a.args[0], tt.ZExt(a.args[1], w), tt.ZExt(a.args[2], w))
	}
	return tt.mk(OpZExt, Sort{w}, 0, "", a)
}

func (tt *TermTable) SExt(a *Term, w int) *Term {
	if w == a.sort.W {
		return a
	}
	if w < a.sort.W {
		return tt.Extract(a, w-1, 0)
	}
	if a.IsConst() {
		return tt.BV(w, uint64(sext(a.c, a.sort.W)))
	}
	if a.op == OpZExt {
		return tt.ZExt(a.args[0], w)
	}
	if a.op == OpIte && (a.args[1].IsConst() || a.args[2].IsConst()) {
		return tt.Ite(a.args[0], tt.SExt(a.args[1], w), tt.SExt(a.args[2], w))
	}
	return tt.mk(OpSExt, Sort{w}, 0, "", a)
}

// ---- printing ----

func (tt *TermTable) constStr(t *Term) string {
	if t.sort.W == 0 {
		if t.c == 1 {
			return "true"
		}
		return "false"
	}
	if t.sort.W%4 == 0 {
		return fmt.Sprintf("#x%0*x", t.sort.W/4, t.c)
	}
	return fmt.Sprintf("#b%0*b", t.sort.W, t.c)
}

func tname(t *Term) string { return "t" + strconv.Itoa(t.id) }

func smtSym(s string) string {
	// all engine symbols are prefixed so they cannot clash with theory symbols
	ok := true
	for _, r := range s {
		if !(r >= 'a' && r <= 'z' || r >= 'A' && r <= 'Z' || r >= '0' && r <= '9' || r == '_' || r == '.') {
			ok = false
		}
	}
	if ok {
		return s
	}
	return "|" + strings.ReplaceAll(s, "|", "_") + "|"
}

// ref returns how a term is referenced inside other terms.
func (tt *TermTable) ref(t *Term) string {
	switch t.op {
	case OpConst:
		return tt.constStr(t)
	case OpVar:
		return smtSym(t.name)
	}
	return tname(t)
}

// body returns the defining expression of a non-leaf term.
func (tt *TermTable) body(t *Term) string {
	var sb strings.Builder
	switch t.op {
	case OpExtract:
		fmt.Fprintf(&sb, "((_ extract %d %d) %s)", t.c>>8, t.c&0xff, tt.ref(t.args[0]))
	case OpZExt:
		fmt.Fprintf(&sb, "((_ zero_extend %d) %s)", t.sort.W-t.args[0].sort.W, tt.ref(t.args[0]))
	case OpSExt:
		fmt.Fprintf(&sb, "((_ sign_extend %d) %s)", t.sort.W-t.args[0].sort.W, tt.ref(t.args[0]))
	case OpApp:
		if len(t.args) == 0 {
			return smtSym(t.name)
		}
		sb.WriteString("(" + smtSym(t.name))
		for _, a := range t.args {
			sb.WriteString(" " + tt.ref(a))
		}
		sb.WriteString(")")
	default:
		sb.WriteString("(" + opNames[t.op])
		for _, a := range t.args {
			sb.WriteString(" " + tt.ref(a))
		}
		sb.WriteString(")")
	}
	return sb.String()
}

// Eval evaluates a term under a model (variable name -> value); UF applications are looked up
// through the uf callback (may be nil: then evaluation fails with ok=false).
type Model struct {
	vars map[string]uint64
	uf   func(name string, args []uint64) (uint64, bool)
}

func (tt *TermTable) Eval(t *Term, m *Model, memo map[int]uint64) (uint64, bool) {
	if v, ok := memo[t.id]; ok {
		return v, true
	}
	var r uint64
	switch t.op {
	case OpConst:
		r = t.c
	case OpVar:
		v, ok := m.vars[t.name]
		if !ok {
			v = 0
		}
		r = v & mask64(t.sort.W)
	default:
		args := make([]uint64, len(t.args))
		for i, a := range t.args {
			v, ok := tt.Eval(a, m, memo)
			if !ok {
				return 0, false
			}
			args[i] = v
		}
		if t.op == OpApp {
			if m.uf == nil {
				return 0, false
			}
			v, ok := m.uf(t.name, args)
			if !ok {
				return 0, false
			}
			r = v & mask64(t.sort.W)
			break
		}
		cs := make([]*Term, len(args))
		for i, a := range t.args {
			if a.sort.W == 0 {
				cs[i] = tt.Bool(args[i] != 0)
			} else {
				cs[i] = tt.BV(a.sort.W, args[i])
			}
		}
		var res *Term
		switch t.op {
		case OpNot:
			res = tt.Not(cs[0])
		case OpAnd:
			res = tt.And(cs...)
		case OpOr:
			res = tt.Or(cs...)
		case OpEq:
			res = tt.Eq(cs[0], cs[1])
		case OpIte:
			res = tt.Ite(cs[0], cs[1], cs[2])
		case OpBvNot:
			res = tt.BvNot(cs[0])
		case OpNeg:
			res = tt.Neg(cs[0])
		case OpULt, OpULe, OpSLt, OpSLe:
			res = tt.Cmp(t.op, cs[0], cs[1])
		case OpExtract:
			res = tt.Extract(cs[0], int(t.c>>8), int(t.c&0xff))
		case OpConcat:
			res = tt.Concat(cs[0], cs[1])
		case OpZExt:
			res = tt.ZExt(cs[0], t.sort.W)
		case OpSExt:
			res = tt.SExt(cs[0], t.sort.W)
		default:
			res = tt.Bin(t.op, cs[0], cs[1])
		}
		if !res.IsConst() {
			return 0, false
		}
		r = res.c
	}
	memo[t.id] = r
	return r, true
}

func mask64(w int) uint64 {
	if w == 0 {
		return 1
	}
	return mask(w)
}

// Vars collects the variables occurring in t.
func collectVars(t *Term, seen map[int]bool, out *[]*Term) {
	if seen[t.id] {
		return
	}
	seen[t.id] = true
	if t.op == OpVar {
		*out = append(*out, t)
	}
	for _, a := range t.args {
		collectVars(a, seen, out)
	}
}

func (t *Term) String() string {
	return termString(t, 0)
}

func termString(t *Term, depth int) string {
	switch t.op {
	case OpConst:
		if t.sort.W == 0 {
			if t.c == 1 {
				return "true"
			}
			return "false"
		}
		return fmt.Sprintf("%d:%d", t.c, t.sort.W)
	case OpVar:
		return t.name
	}
	if depth > 6 {
		return "…"
	}
	var sb strings.Builder
	if t.op == OpApp {
		sb.WriteString("(" + t.name)
	} else if t.op == OpExtract {
		fmt.Fprintf(&sb, "(extract[%d:%d]", t.c>>8, t.c&0xff)
	} else if t.op == OpZExt {
		sb.WriteString("(zext")
	} else if t.op == OpSExt {
		sb.WriteString("(sext")
	} else {
		sb.WriteString("(" + opNames[t.op])
	}
	for _, a := range t.args {
		sb.WriteString(" " + termString(a, depth+1))
	}
	sb.WriteString(")")
	return sb.String()
}
