package main

// Value representation of the interpreted program.
//
//   bool, intN, uintN, uintptr : *Term (Bool / BitVec N; int = 64 bit); constants are constant Terms
//   float32/64                  : Float (concrete only)
//   string                      : Str (concrete length; bytes concrete or symbolic)
//   [N]T, struct                : *Agg (mutable cell content, copied on load/store)
//   *T                          : Ptr{obj, path}
//   []T                         : Slice
//   map                         : *Map
//   chan                        : *Chan
//   func                        : *ssa.Function, *Closure, *ssa.Builtin
//   interface                   : Iface{t, v}
//   tuple                       : Tuple
//   range iterator              : *mapIter / *strIter

import (
	"fmt"
	"go/types"
	"strings"

	"golang.org/x/tools/go/ssa"
)

type Value interface{}

type Float struct{ f float64 }

type Str struct {
	s   string  // concrete content when sym == nil
	sym []*Term // len == length of string; each a BV8 term (may be constant)
}

func (s Str) Len() int {
	if s.sym != nil {
		return len(s.sym)
	}
	return len(s.s)
}

func (s Str) IsConcrete() bool { return s.sym == nil }

type Agg struct {
	elems []Value
}

type Object struct {
	id    int
	v     Value // content
	typ   types.Type
	birth int
	label string
	// snapshot, when non-nil, is the deep copy of the Go value this byte buffer encodes (bencode stubs)
	snapshot Value
	snapType types.Type
	snapOff  int // offset and length of the encoded bytes inside this buffer
	snapLen  int
	// top-level dictionary keys the encoded datagram leaves out although the snapshot's type always
	// writes them (verifEncodeWithout): the decoder does not assign the fields of those keys
	snapAbsent []string
	frozen     bool
}

type Ptr struct {
	obj  *Object
	path []int
	// fn is set for pointers that are really *ssa.Function-like opaque handles (unused)
}

func (p Ptr) IsNil() bool { return p.obj == nil }

type Slice struct {
	obj  *Object // nil for nil slice
	path []int   // path to the backing array inside obj
	off  int
	len  int
	cap  int
}

func (s Slice) IsNil() bool { return s.obj == nil }

type Map struct {
	id      int
	keyT    types.Type
	keys    []Value
	vals    []Value
	deleted int
}

type Closure struct {
	fn  *ssa.Function
	env []Value
}

// Bound method value with receiver captured (ssa uses MakeClosure of bound wrappers, so rarely needed)

type Iface struct {
	t types.Type // nil => nil interface
	v Value
}

type Tuple []Value

// Host is an opaque engine-native object carried inside interpreted values (e.g. reflect values, errors
// created by stubs).
type Host struct {
	kind string
	data interface{}
}

func (e *Exec) newObject(t types.Type, v Value, label string) *Object {
	e.objCounter++
	return &Object{id: e.objCounter, v: v, typ: t, birth: e.objCounter, label: label}
}

// ---- zero values ----

func (e *Exec) zero(t types.Type) Value {
	switch t := t.(type) {
	case *types.Basic:
		if t.Kind() == types.UntypedNil {
			return Ptr{}
		}
		switch {
		case t.Info()&types.IsBoolean != 0:
			return e.tt.False
		case t.Info()&types.IsInteger != 0:
			return e.tt.BV(e.intWidth(t), 0)
		case t.Info()&types.IsFloat != 0:
			return Float{0}
		case t.Info()&types.IsString != 0:
			return Str{}
		case t.Kind() == types.UnsafePointer:
			return Ptr{}
		}
		panic(e.unsupported("zero of basic type %v", t))
	case *types.Pointer:
		return Ptr{}
	case *types.Array:
		n := int(t.Len())
		a := &Agg{elems: make([]Value, n)}
		if n > 0 {
			z := e.zero(t.Elem())
			a.elems[0] = z
			for i := 1; i < n; i++ {
				a.elems[i] = e.copyVal(z)
			}
		}
		return a
	case *types.Struct:
		a := &Agg{elems: make([]Value, t.NumFields())}
		for i := range a.elems {
			a.elems[i] = e.zero(t.Field(i).Type())
		}
		return a
	case *types.Named:
		return e.zero(t.Underlying())
	case *types.Alias:
		return e.zero(types.Unalias(t))
	case *types.Interface:
		return Iface{}
	case *types.Slice:
		return Slice{}
	case *types.Map:
		return (*Map)(nil)
	case *types.Chan:
		return (*Chan)(nil)
	case *types.Signature:
		return (*ssa.Function)(nil)
	case *types.Tuple:
		if t.Len() == 1 {
			return e.zero(t.At(0).Type())
		}
		tu := make(Tuple, t.Len())
		for i := range tu {
			tu[i] = e.zero(t.At(i).Type())
		}
		return tu
	}
	panic(e.unsupported("zero of type %T %v", t, t))
}

func (e *Exec) intWidth(t *types.Basic) int {
	switch t.Kind() {
	case types.Int8, types.Uint8:
		return 8
	case types.Int16, types.Uint16:
		return 16
	case types.Int32, types.Uint32:
		return 32
	case types.Int, types.Uint, types.Int64, types.Uint64, types.Uintptr, types.UntypedInt, types.UntypedRune:
		return 64
	}
	panic(e.unsupported("intWidth of %v", t))
}

func isSigned(t *types.Basic) bool {
	return t.Info()&types.IsUnsigned == 0
}

func basicOf(t types.Type) *types.Basic {
	b, _ := t.Underlying().(*types.Basic)
	return b
}

// ---- copying ----

func (e *Exec) copyVal(v Value) Value {
	switch v := v.(type) {
	case *Agg:
		if v == nil {
			return v
		}
		n := &Agg{elems: make([]Value, len(v.elems))}
		for i, x := range v.elems {
			switch x.(type) {
			case *Agg:
				n.elems[i] = e.copyVal(x)
			default:
				n.elems[i] = x
			}
		}
		return n
	case Tuple:
		n := make(Tuple, len(v))
		for i, x := range v {
			n[i] = e.copyVal(x)
		}
		return n
	}
	return v
}

// ---- strings ----

func (e *Exec) strBytes(s Str) []*Term {
	if s.sym != nil {
		return s.sym
	}
	out := make([]*Term, len(s.s))
	for i := 0; i < len(s.s); i++ {
		out[i] = e.tt.BV(8, uint64(s.s[i]))
	}
	return out
}

func (e *Exec) mkStr(bs []*Term) Str {
	conc := true
	for _, b := range bs {
		if !b.IsConst() {
			conc = false
			break
		}
	}
	if conc {
		var sb strings.Builder
		for _, b := range bs {
			sb.WriteByte(byte(b.c))
		}
		return Str{s: sb.String()}
	}
	if len(bs) == 0 {
		return Str{}
	}
	return Str{sym: append([]*Term(nil), bs...)}
}

func (e *Exec) strEq(a, b Str) *Term {
	if a.Len() != b.Len() {
		return e.tt.False
	}
	if a.IsConcrete() && b.IsConcrete() {
		return e.tt.Bool(a.s == b.s)
	}
	return e.bytesEq(e.strBytes(a), e.strBytes(b))
}

// strLess builds the lexicographic a < b predicate.
func (e *Exec) strLess(a, b Str) *Term {
	if a.IsConcrete() && b.IsConcrete() {
		return e.tt.Bool(a.s < b.s)
	}
	ab, bb := e.strBytes(a), e.strBytes(b)
	n := len(ab)
	if len(bb) < n {
		n = len(bb)
	}
	// result when all first n bytes are equal: len(a) < len(b)
	res := e.tt.Bool(len(ab) < len(bb))
	for i := n - 1; i >= 0; i-- {
		lt := e.tt.Cmp(OpULt, ab[i], bb[i])
		eq := e.tt.Eq(ab[i], bb[i])
		res = e.tt.Or(lt, e.tt.And(eq, res))
	}
	return res
}

// ---- equality of arbitrary values (Go == semantics), as a Term ----

func (e *Exec) equalVals(t types.Type, a, b Value) *Term {
	switch a := a.(type) {
	case *Term:
		bt, ok := b.(*Term)
		if !ok {
			panic(e.unsupported("equalVals term vs %T", b))
		}
		return e.tt.Eq(a, bt)
	case Float:
		return e.tt.Bool(a.f == b.(Float).f)
	case Str:
		return e.strEq(a, b.(Str))
	case *Agg:
		bb := b.(*Agg)
		if len(a.elems) != len(bb.elems) {
			return e.tt.False
		}
		cs := make([]*Term, 0, len(a.elems))
		var st *types.Struct
		var at *types.Array
		if t != nil {
			switch u := t.Underlying().(type) {
			case *types.Struct:
				st = u
			case *types.Array:
				at = u
			}
		}
		for i := range a.elems {
			var et types.Type
			if st != nil {
				et = st.Field(i).Type()
			} else if at != nil {
				et = at.Elem()
			}
			c := e.equalVals(et, a.elems[i], bb.elems[i])
			if c.IsFalse() {
				return c
			}
			cs = append(cs, c)
		}
		return e.tt.And(cs...)
	case Ptr:
		bp := b.(Ptr)
		return e.tt.Bool(ptrEq(a, bp))
	case Iface:
		bi, ok := b.(Iface)
		if !ok {
			panic(e.unsupported("equalVals iface vs %T", b))
		}
		if a.t == nil || bi.t == nil {
			return e.tt.Bool(a.t == nil && bi.t == nil)
		}
		if !types.Identical(a.t, bi.t) {
			return e.tt.False
		}
		if !types.Comparable(a.t) {
			panic(e.goPanic("runtime error: comparing uncomparable type " + a.t.String()))
		}
		return e.equalVals(a.t, a.v, bi.v)
	case *Map:
		bm, _ := b.(*Map)
		return e.tt.Bool(a == bm)
	case *Chan:
		bc, _ := b.(*Chan)
		return e.tt.Bool(a == bc)
	case Slice:
		// only comparable to nil
		bs := b.(Slice)
		return e.tt.Bool(a.IsNil() && bs.IsNil())
	case *ssa.Function:
		switch b := b.(type) {
		case *ssa.Function:
			return e.tt.Bool(a == b)
		case *Closure:
			return e.tt.Bool(a == nil && b == nil)
		}
		return e.tt.False
	case *Closure:
		switch b := b.(type) {
		case *Closure:
			return e.tt.Bool(a == b)
		case *ssa.Function:
			return e.tt.Bool(a == nil && b == nil)
		}
		return e.tt.False
	case *Host:
		bh, _ := b.(*Host)
		return e.tt.Bool(a == bh)
	case nil:
		return e.tt.Bool(b == nil)
	}
	panic(e.unsupported("equalVals of %T", a))
}

func ptrEq(a, b Ptr) bool {
	if a.obj != b.obj {
		return false
	}
	if len(a.path) != len(b.path) {
		return false
	}
	for i := range a.path {
		if a.path[i] != b.path[i] {
			return false
		}
	}
	return true
}

// ---- debugging ----

func (e *Exec) valString(v Value, depth int) string {
	if depth > 4 {
		return "…"
	}
	switch v := v.(type) {
	case nil:
		return "<nil>"
	case *Term:
		return v.String()
	case Float:
		return fmt.Sprint(v.f)
	case Str:
		if v.IsConcrete() {
			return fmt.Sprintf("%q", v.s)
		}
		parts := make([]string, len(v.sym))
		for i, b := range v.sym {
			parts[i] = b.String()
		}
		return "str[" + strings.Join(parts, " ") + "]"
	case *Agg:
		if v == nil {
			return "agg<nil>"
		}
		if len(v.elems) > 40 {
			return fmt.Sprintf("agg[%d]", len(v.elems))
		}
		parts := make([]string, len(v.elems))
		for i, x := range v.elems {
			parts[i] = e.valString(x, depth+1)
		}
		return "{" + strings.Join(parts, ", ") + "}"
	case Ptr:
		if v.IsNil() {
			return "nilptr"
		}
		return fmt.Sprintf("&obj%d%v", v.obj.id, v.path)
	case Slice:
		if v.IsNil() {
			return "nilslice"
		}
		return fmt.Sprintf("slice(obj%d%v off=%d len=%d cap=%d)", v.obj.id, v.path, v.off, v.len, v.cap)
	case *Map:
		if v == nil {
			return "nilmap"
		}
		return fmt.Sprintf("map#%d(len=%d)", v.id, len(v.keys))
	case Iface:
		if v.t == nil {
			return "iface<nil>"
		}
		return fmt.Sprintf("iface(%v: %s)", v.t, e.valString(v.v, depth+1))
	case Tuple:
		parts := make([]string, len(v))
		for i, x := range v {
			parts[i] = e.valString(x, depth+1)
		}
		return "(" + strings.Join(parts, ", ") + ")"
	case *ssa.Function:
		if v == nil {
			return "nilfunc"
		}
		return v.String()
	case *Closure:
		return "closure(" + v.fn.String() + ")"
	case *Host:
		return "host(" + v.kind + ")"
	case *Chan:
		if v == nil {
			return "nilchan"
		}
		return fmt.Sprintf("chan#%d", v.id)
	}
	return fmt.Sprintf("%T", v)
}
