//go:build verif

package traversal

import (
	"context"
	"net"
	"sync/atomic"
	"testing"
	"time"

	"github.com/anacrolix/dht/v2/krpc"
	"github.com/anacrolix/dht/v2/types"
)

// Native demonstration of the C03 finding "stale stalled offer" (found by symgo, entry
// VerifTrav_SeedRace): the run loop decides "stalled" on an empty frontier, releases its lock, and is
// held (here: by the verif hook; in the field: by the scheduler) before it enters its select. A
// contact is added (AddNode returns nil) and the owner starts waiting on Stalled(). When the run loop
// enters the select, the stale offer and the wake-up are both ready and Go picks one at random: in
// about half of the rounds the lookup reports stalled without ever querying the contact it accepted.
//
//   go test -tags verif -count=1 -run TestStaleStalledOffer ./traversal/
func TestStaleStalledOffer(t *testing.T) {
	seed := krpc.NodeAddr{IP: net.IP{10, 0, 0, 1}, Port: 1}
	stale := 0
	const rounds = 40
	for i := 0; i < rounds; i++ {
		reached := make(chan struct{})
		release := make(chan struct{})
		var hits int32
		VerifPoint = func(name string) {
			if name == "run:unlocked-before-select" && atomic.AddInt32(&hits, 1) == 1 {
				close(reached)
				<-release
			}
		}
		var order, stalledAt, askedAt int32
		finish := make(chan struct{})
		op := Start(OperationInput{Alpha: 1, DoQuery: func(ctx context.Context, a krpc.NodeAddr) (res QueryResult) {
			atomic.StoreInt32(&askedAt, atomic.AddInt32(&order, 1)) // the contact is being queried
			<-finish                                               // the answer is withheld until the round is over
			return
		}})
		<-reached
		if err := op.AddNode(types.AddrMaybeId{Addr: seed.ToNodeAddrPort()}); err != nil {
			t.Fatal(err)
		}
		stalled := make(chan struct{})
		go func() {
			<-op.Stalled()
			atomic.StoreInt32(&stalledAt, atomic.AddInt32(&order, 1))
			close(stalled)
		}()
		time.Sleep(5 * time.Millisecond) // the owner is parked on Stalled()
		close(release)
		time.Sleep(5 * time.Millisecond)
		// Had the run loop taken the wake-up, the contact would be in flight now (its answer is withheld)
		// and no stalled report could have been delivered yet. A report delivered by now was the stale offer:
		// the lookup said "stalled" with an accepted contact unqueried or its query still in flight.
		if atomic.LoadInt32(&stalledAt) != 0 {
			stale++
		}
		_ = askedAt
		close(finish)
		<-stalled
		op.Stop()
		<-op.Stopped()
		VerifPoint = nil
	}
	t.Logf("lookup reported stalled without querying the accepted contact in %d of %d rounds", stale, rounds)
	if stale > 0 {
		t.Fail()
	}
}
