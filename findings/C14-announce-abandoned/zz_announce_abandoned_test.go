package dht

import (
	"net"
	"runtime"
	"strings"
	"testing"
	"time"

	"github.com/anacrolix/torrent/bencode"

	"github.com/anacrolix/dht/v2/krpc"
)

// Native demonstration of the C14 finding "abandoned announce" (found by symgo, entry
// VerifC14_AnnounceAbandoned): a get_peers response has arrived but the owner is not reading Peers;
// the owner calls Close and never reads again. The query goroutine stays blocked in
// Announce.getPeers (it waits for Stopped, which cannot fire while that very query is outstanding),
// and with it the traversal's stop waiter and the announce's finisher: three goroutines for good,
// Peers is never closed, Finished never fires.
//
//   go test -count=1 -run TestAnnounceAbandoned .
func TestAnnounceAbandoned(t *testing.T) {
	remote, err := net.ListenPacket("udp", "127.0.0.1:0")
	if err != nil {
		t.Fatal(err)
	}
	defer remote.Close()
	go func() {
		buf := make([]byte, 2048)
		for {
			n, from, err := remote.ReadFrom(buf)
			if err != nil {
				return
			}
			var q krpc.Msg
			if bencode.Unmarshal(buf[:n], &q) != nil {
				continue
			}
			tok := "tk"
			remote.WriteTo(bencode.MustMarshal(krpc.Msg{T: q.T, Y: "r", R: &krpc.Return{ID: krpc.ID{7}, Token: &tok}}), from)
		}
	}()
	pc, _ := net.ListenPacket("udp", "127.0.0.1:0")
	s, err := NewServer(&ServerConfig{Conn: pc, NoSecurity: true, StartingNodes: func() ([]Addr, error) {
		return []Addr{NewAddr(remote.LocalAddr())}, nil
	}})
	if err != nil {
		t.Fatal(err)
	}
	defer s.Close()
	time.Sleep(50 * time.Millisecond)
	before := runtime.NumGoroutine()
	a, err := s.AnnounceTraversal([20]byte{1})
	if err != nil {
		t.Fatal(err)
	}
	time.Sleep(300 * time.Millisecond) // the response is in; nobody reads Peers
	a.Close()
	time.Sleep(500 * time.Millisecond)
	after := runtime.NumGoroutine()
	buf := make([]byte, 1<<20)
	stacks := string(buf[:runtime.Stack(buf, true)])
	stuck := strings.Count(stacks, "(*Announce).getPeers")
	select {
	case <-a.Finished():
	default:
		t.Errorf("Finished has not fired 500ms after Close")
	}
	if after > before || stuck > 0 {
		t.Errorf("goroutines before the announce: %d, after Close: %d; %d goroutine(s) still inside Announce.getPeers", before, after, stuck)
	}
}
