package bep44

import (
	"crypto/ed25519"
	"crypto/sha1"
	"strconv"
)

// C12: the store accepts a mutable item only if its signature verifies for its own (salt, seq, value)
// under its own key, salt <= 64 bytes, encoded value <= 1000 bytes; items are kept only under the
// target the BEP defines; a rejected put leaves the store unchanged.
//
// ed25519.Verify is an uninterpreted *function* of (key, message, signature): the harness states the
// signed message independently of item.go (BEP 44: optional "4:salt<len>:<salt>", then
// "3:seqi<seq>e1:v", then the bencoded value) and asks the same function about it. "Stored only if the
// signature verifies" then means: the implementation asked about exactly that key, message and
// signature and got yes.

// verifBencodeString: the bencoding of a byte string, written independently.
func verifBencodeString(s []byte) []byte {
	return append([]byte(strconv.Itoa(len(s))+":"), s...)
}

func verifRefMessage(salt []byte, seq int64, v []byte) []byte {
	var m []byte
	if len(salt) != 0 {
		m = append(m, "4:salt"...)
		m = append(m, verifBencodeString(salt)...)
	}
	m = append(m, ("3:seqi" + strconv.FormatInt(seq, 10) + "e1:v")...)
	return append(m, verifBencodeString(v)...)
}

func verifRefTarget(i *Item, v []byte) Target {
	if i.K != [32]byte{} {
		return sha1.Sum(append(append([]byte{}, i.K[:]...), i.Salt...))
	}
	return sha1.Sum(verifBencodeString(v))
}

type verifC12Item struct {
	item  *Item
	value []byte
}

// verifAnyItem: key arbitrary (or absent: immutable), salt of length 0/1/64/65, seq from a small set,
// value a byte string that encodes to 5, 1000 or 1001 bytes, signature arbitrary.
func verifAnyItem(mutable bool, seqs []int64) verifC12Item {
	var val []byte
	switch verifChoice(0, 2) {
	case 0:
		val = make([]byte, 3)
		verifFill(val)
	case 1:
		val = make([]byte, 996) // "996:" + 996 bytes = 1000
	case 2:
		val = make([]byte, 997) // 1001 bytes encoded
	}
	it := &Item{V: string(val), Seq: seqs[verifChoice(0, len(seqs)-1)]}
	if mutable {
		verifFill(it.K[:])
		verifAssume(it.K != [32]byte{})
		verifFill(it.Sig[:])
		it.Salt = make([]byte, []int{0, 1, 64, 65}[verifChoice(0, 3)])
		verifFill(it.Salt)
	}
	return verifC12Item{it, val}
}

// verifExpectCodes: which BEP 44 rejections apply to the item (empty = must be accepted).
func verifExpect(ci verifC12Item) (tooBig, saltBig, badSig bool) {
	i := ci.item
	tooBig = len(verifBencodeString(ci.value)) > 1000
	if i.K != [32]byte{} {
		saltBig = len(i.Salt) > 64
		badSig = !ed25519.Verify(i.K[:], verifRefMessage(i.Salt, i.Seq, ci.value), i.Sig[:])
	}
	return
}

func verifC12Put(mutable bool) {
	w := NewWrapper(NewMemory(), 0x7fffffffffffffff)
	ci := verifAnyItem(mutable, []int64{0, 7, -3})
	tooBig, saltBig, badSig := verifExpect(ci)
	err := w.Put(ci.item)
	code := verifCode(err)
	target := verifRefTarget(ci.item, ci.value)
	if !tooBig && !saltBig && !badSig {
		verifAssert(err == nil, "C12: an item within the limits whose signature verifies is accepted")
		got, gerr := w.Get(target)
		verifAssert(gerr == nil && got == ci.item, "C12: an accepted item is served under the target the BEP defines (SHA-1 of key||salt, or of the encoded value)")
		verifReach("accepted")
	} else {
		verifAssert(err != nil, "C12: an oversized or badly signed item is rejected")
		ok := (code == 205 && tooBig) || (code == 207 && saltBig) || (code == 206 && badSig)
		verifAssert(ok, "C12: the rejection carries the BEP 44 code of a rule the item breaks (205 value, 207 salt, 206 signature)")
		_, gerr := w.Get(target)
		verifAssert(gerr == ErrItemNotFound, "C12: a rejected put leaves the store unchanged")
		_, gerr = w.Get(ci.item.Target())
		verifAssert(gerr == ErrItemNotFound, "C12: ... under any target")
		verifReach("rejected")
	}
	verifReach("end")
}

func VerifC12_PutMutable()   { verifC12Put(true) }
func VerifC12_PutImmutable() { verifC12Put(false) }

// A second put to the same mutable target (same key and salt, higher seq, any value, ANY signature -
// in particular the stored one): accepted only if its own signature verifies for its own fields;
// otherwise 206 and the first item stays.
func VerifC12_SecondPut() {
	w := NewWrapper(NewMemory(), 0x7fffffffffffffff)
	var k [32]byte
	verifFill(k[:])
	verifAssume(k != [32]byte{})
	salt := make([]byte, verifChoice(0, 1))
	verifFill(salt)
	v1 := make([]byte, 2)
	verifFill(v1)
	a := &Item{V: string(v1), K: k, Salt: salt, Seq: 1}
	verifFill(a.Sig[:])
	verifAssume(ed25519.Verify(k[:], verifRefMessage(salt, 1, v1), a.Sig[:]))
	verifAssert(w.Put(a) == nil, "C12: the first, correctly signed item is accepted")
	v2 := make([]byte, 2)
	verifFill(v2)
	b := &Item{V: string(v2), K: k, Salt: salt, Seq: 2}
	verifFill(b.Sig[:])
	err := w.Put(b)
	good := ed25519.Verify(k[:], verifRefMessage(salt, 2, v2), b.Sig[:])
	verifAssert((err == nil) == good, "C12: a later put is accepted iff its signature verifies for its own (salt, seq, value)")
	got, gerr := w.Get(verifRefTarget(a, v1))
	if good {
		verifAssert(gerr == nil && got == b, "C12: the accepted update is what get serves")
		verifReach("updated")
	} else {
		verifAssert(verifCode(err) == 206, "C12: a forged update is answered with 206")
		verifAssert(gerr == nil && got == a, "C12: a rejected put leaves the stored item in place")
		verifReach("forged")
	}
	verifReach("end")
}

func VerifC12_MustFail() {
	w := NewWrapper(NewMemory(), 0x7fffffffffffffff)
	ci := verifAnyItem(false, []int64{1})
	verifAssert(w.Put(ci.item) != nil, "twin: no immutable item is ever accepted (must fail)")
}
