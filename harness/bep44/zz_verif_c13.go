package bep44

import (
	"time"

	"github.com/anacrolix/dht/v2/krpc"
)

func verifValue() string { return verifSymString(verifChoice(0, 2)) }

func verifCode(err error) int {
	if err == nil {
		return 0
	}
	if ke, ok := err.(krpc.Error); ok {
		return ke.Code
	}
	return -1
}

// The rule of the property, stated independently of item.go: CAS (when carried) must equal the stored
// sequence number, else 301; otherwise a lower seq, or the same seq with another value, is 302.
func verifC13Expect(storedSeq int64, storedV string, inSeq, inCas int64, inV string) int {
	if inCas != 0 && inCas != storedSeq {
		return 301
	}
	if inSeq < storedSeq {
		return 302
	}
	if inSeq == storedSeq && inV != storedV {
		return 302
	}
	return 0
}

func VerifC13_CheckIncoming() {
	stored := &Item{V: verifValue(), Seq: verifNondetI64(), Cas: verifNondetI64()}
	incoming := &Item{V: verifValue(), Seq: verifNondetI64(), Cas: verifNondetI64()}
	got := verifCode(CheckIncoming(stored, incoming))
	want := verifC13Expect(stored.Seq, stored.V.(string), incoming.Seq, incoming.Cas, incoming.V.(string))
	verifAssert(got == want, "C13 CheckIncoming: 301 iff a carried CAS differs from the stored seq, else 302 iff seq is lower or equal with another value, else accepted")
	if got == 0 {
		verifAssert(incoming.Seq >= stored.Seq, "C13 CheckIncoming: an accepted put never lowers the sequence number")
		verifReach("accepted")
	}
	verifReach("end")
}

func verifMutable(seq, cas int64, v string) *Item {
	it := &Item{V: v, Seq: seq, Cas: cas}
	it.K[0] = 1 // a fixed non-zero key: one mutable target
	verifFill(it.Sig[:])
	return it
}

// Two puts and a get on one mutable target through the real Wrapper over the real Memory store.
func VerifC13_WrapperHistory() {
	w := NewWrapper(NewMemory(), 2000000*time.Hour) // expiry (7.2e9 s) beyond the modelled clock range (4e9 s)
	a := verifMutable(verifNondetI64(), verifNondetI64(), verifValue())
	b := verifMutable(verifNondetI64(), verifNondetI64(), verifValue())
	target := a.Target()
	verifAssert(b.Target() == target, "same key and salt: same target")
	if w.Put(a) != nil {
		_, err := w.Get(target)
		verifAssert(err == ErrItemNotFound, "C13 store: a rejected first put leaves the store empty")
		verifReach("first-rejected")
		return
	}
	errB := w.Put(b)
	got := verifCode(errB)
	if got != 206 { // 206: the (arbitrary) signature did not verify
		want := verifC13Expect(a.Seq, a.V.(string), b.Seq, b.Cas, b.V.(string))
		verifAssert(got == want, "C13 store: second put gets 301/302/accepted by the BEP 44 rule")
	}
	cur, err := w.Get(target)
	verifAssert(err == nil && cur != nil, "C13 store: the target is still served")
	if errB == nil {
		verifAssert(cur == b, "C13 store: an accepted put is what later gets return")
		verifAssert(cur.Seq >= a.Seq, "C13 store: stored sequence number never decreases")
		verifReach("second-accepted")
	} else {
		verifAssert(cur == a, "C13 store: a rejected put leaves the stored item unchanged")
		verifReach("second-rejected")
	}
	verifReach("end")
}

// Items older than the configured expiry are no longer served (expiry zero: nothing is ever served).
func VerifC13_Expiry() {
	w := NewWrapper(NewMemory(), 0)
	a := verifMutable(verifNondetI64(), verifNondetI64(), verifValue())
	if w.Put(a) != nil {
		return
	}
	_, err := w.Get(a.Target())
	verifAssert(err == ErrItemNotFound, "C13 expiry: an item as old as the expiry is not served")
	_, err = w.s.Get(a.Target())
	verifAssert(err == ErrItemNotFound, "C13 expiry: and is removed from the store")
	verifReach("end")
}

func VerifC13_MustFail() {
	stored := &Item{V: verifValue(), Seq: verifNondetI64()}
	incoming := &Item{V: verifValue(), Seq: verifNondetI64()}
	verifAssert(CheckIncoming(stored, incoming) == nil, "twin: every put is accepted (must fail)")
	verifReach("end")
}

// Two concurrent puts to one target (local API and inbound share the Wrapper): under every
// interleaving at the granularity of the store's Get/Put/Del calls, the outcome must be one that some
// serial order of the two puts produces.
func VerifC13_ConcurrentPuts() {
	w := NewWrapper(NewMemory(), 2000000*time.Hour)
	a := verifMutable(verifNondetI64(), 0, "a")
	b := verifMutable(verifNondetI64(), 0, "b")
	verifAssume(a.Seq < b.Seq)
	var errA, errB error
	done := make(chan struct{}, 2)
	go func() { errA = w.Put(a); done <- struct{}{} }()
	go func() { errB = w.Put(b); done <- struct{}{} }()
	<-done
	<-done
	if verifCode(errA) == 206 || verifCode(errB) == 206 {
		return // a signature did not verify: not the case of interest
	}
	cur, err := w.Get(a.Target())
	verifAssert(err == nil && cur != nil, "C13 concurrent: the target is served")
	verifAssert(errB == nil, "C13 concurrent: the higher-seq put is accepted in every serial order")
	verifAssert(cur == b, "C13 concurrent: the stored sequence number never decreases (the higher-seq item stays)")
	verifReach("end")
}

func VerifC13_ConcurrentPuts3() { VerifC13_ConcurrentPuts() }

// Three concurrent puts to one target (a < b < c by sequence number): whatever the interleaving, the
// outcome is that of some serial order of the three - the highest-seq put is accepted and its item is
// the one that stays. Three holders are the smallest number that separates "one lock per store" from
// lock tables whose entries can be dropped while a waiter is parked on them.
func VerifC13_ThreePuts() {
	w := NewWrapper(NewMemory(), 2000000*time.Hour)
	a := verifMutable(1, 0, "a")
	b := verifMutable(2, 0, "b")
	c := verifMutable(3, 0, "c")
	var errC error
	done := make(chan struct{}, 3)
	go func() { w.Put(a); done <- struct{}{} }()
	go func() { w.Put(b); done <- struct{}{} }()
	go func() { errC = w.Put(c); done <- struct{}{} }()
	<-done
	<-done
	<-done
	if verifCode(errC) == 206 {
		return
	}
	cur, err := w.Get(a.Target())
	verifAssert(err == nil && cur != nil, "C13 three puts: the target is served")
	verifAssert(errC == nil, "C13 three puts: the highest-seq put is accepted in every serial order")
	verifAssert(cur == c, "C13 three puts: the stored sequence number never decreases (the highest-seq item stays)")
	verifReach("end")
}
