package bep44

import "time"

// A get racing a put on one target whose stored item has outlived the expiry (expired items are only
// removed lazily, by a get): under every interleaving at the granularity of the store's and the
// wrapper's lock operations the outcome is one that a serial order produces - in both serial orders
// the newer item ends up stored and is what a later get returns; the expiry of the old item never
// removes the fresh one.
func VerifC13_GetPutRace() {
	verifFreezeClock(true)
	mem := NewMemory()
	w := NewWrapper(mem, time.Hour)
	a := verifMutable(verifNondetI64(), 0, "a")
	b := verifMutable(verifNondetI64(), 0, "b")
	verifAssume(a.Seq < b.Seq)
	a.created = time.Now().Local().Add(-2 * time.Hour)
	mem.Put(a)
	var errB, errG error
	var got *Item
	done := make(chan struct{}, 2)
	go func() { got, errG = w.Get(a.Target()); done <- struct{}{} }()
	go func() { errB = w.Put(b); done <- struct{}{} }()
	<-done
	<-done
	if verifCode(errB) == 206 {
		return // the new signature did not verify: not the case of interest
	}
	verifAssert(errB == nil, "C13 expiry race: the newer put is accepted in every serial order")
	verifAssert(errG == ErrItemNotFound || (errG == nil && got == b), "C13 expiry race: the get returns the fresh item or nothing, never the expired one")
	cur, err := w.Get(a.Target())
	verifAssert(err == nil && cur == b, "C13 expiry race: an accepted put is what a later get returns (the expiry of the old item does not remove the fresh one)")
	verifReach("end")
}

// The same under three preemptions (thorough tier).
func VerifC13_GetPutRace3() { VerifC13_GetPutRace() }
