package dht

import (
	"context"
	"net"
	"time"

	"github.com/anacrolix/dht/v2/krpc"
	peer_store "github.com/anacrolix/dht/v2/peer-store"
)

// C01: no inbound datagram crashes, wedges or silences the node. An uncaught panic anywhere (serve
// goroutine, handler goroutines) and a goroutine left blocked at the end are verdicts of the engine
// itself; the harness adds the "still serves" part: a ping from a fresh address is answered and the
// public API returns.

func verifC01Config() verifSrvOpt {
	o := verifSrvOpt{}
	o.noSecurity = verifNondetBool()
	switch verifChoice(0, 2) {
	case 1:
		o.peerStore = &peer_store.InMemory{}
	case 2:
		o.onQuery = func(query *krpc.Msg, source net.Addr) bool { return true }
	}
	return o
}

// verifStillServes: a well-formed ping from a fresh address gets its response; the API returns.
func verifStillServes(v *verifSrv, label string) {
	before := len(v.sock.sent)
	denied := verifEventCount("limiter.deny") + verifEventCount("limiter.waiterr")
	fresh := &net.UDPAddr{IP: net.IP{203, 0, 113, 9}, Port: 40000}
	ping := krpc.Msg{Q: "ping", Y: "q", T: "zz", A: &krpc.MsgArgs{ID: verifIDInBucket(v.id, 2)}}
	v.sock.deliver(verifEncode(ping, 50), fresh)
	if verifEventCount("limiter.deny")+verifEventCount("limiter.waiterr") == denied {
		// (other traffic of the node's own may be written meanwhile)
		ok := false
		for _, w := range v.sock.sent[before:] {
			if verifSameUDP(w.addr, fresh) && w.msg.Y != "q" {
				verifAssert(!ok && w.msg.T == "zz" && w.msg.Y == "r", "C01: "+label+": exactly one response goes to the pinging address")
				ok = true
			}
		}
		verifAssert(ok, "C01: "+label+": a well-formed ping from a fresh address is still answered")
	}
	st := v.s.Stats()
	verifAssert(st.Nodes == v.s.NumNodes(), "C01: "+label+": Stats and NumNodes return and agree")
	_ = v.s.Nodes()
	verifReach("serves")
}

// One arbitrary decoded query of any method group with the security extension enforced (the
// security-off configurations with and without peer store and hook are the C08 entries, where an
// uncaught panic is a violation just the same).
func VerifC01_SecureQuery() {
	isLocalNetwork(net.IP{8, 8, 8, 8})
	v := verifStartServer(verifSrvOpt{noSecurity: false})
	v.lean = true
	verifFixTokenClock(v.s)
	src := verifUDPAddr4()
	m := verifInboundQuery(v, verifChoice(0, 3), []int{1}, src).m
	m.ReadOnly = verifNondetBool()
	v.sock.deliver(verifEncode(m, 60), src)
	verifStillServes(v, "after an arbitrary query")
	verifReach("end")
}

// One arbitrary response, error or message of unknown type (no transaction pending).
func VerifC01_AnyNonQuery() {
	v := verifStartServer(verifSrvOpt{noSecurity: verifNondetBool()})
	src := verifUDPAddr()
	var m krpc.Msg
	m.Y = []string{"r", "e", "x", ""}[verifChoice(0, 3)]
	m.T = verifSymString(verifChoice(0, 1))
	if verifNondetBool() {
		m.R = &krpc.Return{ID: verifPeerID(v.id, []int{0}, true)}
	}
	if verifNondetBool() {
		m.E = &krpc.Error{Code: int(verifNondetI64())}
	}
	m.ReadOnly = verifNondetBool()
	v.sock.deliver(verifEncode(m, 60), src)
	verifStillServes(v, "after an unsolicited non-query")
	verifReach("end")
}

// Bytes that do not decode (any content, any decoder error class and offset), oversize datagrams,
// zero-port sources, datagrams with trailing bytes and truncated ones.
func VerifC01_RawBytes() {
	v := verifStartServer(verifSrvOpt{noSecurity: true})
	src := verifUDPAddr4()
	switch verifChoice(0, 4) {
	case 0: // arbitrary short byte strings
		b := make([]byte, verifChoice(0, 4))
		verifFill(b)
		v.sock.deliver(b, src)
		verifReach("garbage")
	case 1: // a dict-looking prefix followed by arbitrary bytes
		b := make([]byte, 6)
		verifFill(b)
		b[0] = 'd'
		v.sock.deliver(b, src)
		verifReach("garbage-dict")
	case 2: // the read fills the whole buffer (oversize datagram)
		m := krpc.Msg{Q: "ping", Y: "q", T: "aa", A: &krpc.MsgArgs{ID: verifIDInBucket(v.id, 0)}}
		v.sock.in <- verifDatagram{b: verifEncode(m, 40), n: 0x10000, addr: src}
		verifQuiesce()
		verifAssert(len(v.sock.sent) == 0, "C01: an oversize datagram is dropped")
		verifReach("oversize")
	case 3: // source port zero
		m := krpc.Msg{Q: "ping", Y: "q", T: "aa", A: &krpc.MsgArgs{ID: verifIDInBucket(v.id, 0)}}
		v.sock.deliver(verifEncode(m, 40), &net.UDPAddr{IP: src.IP, Port: 0})
		verifAssert(len(v.sock.sent) == 0, "C01: a datagram from port zero is dropped")
		verifReach("zeroport")
	case 4: // well-formed message followed by trailing bytes, or cut short
		m := krpc.Msg{Q: "ping", Y: "q", T: "aa", A: &krpc.MsgArgs{ID: verifIDInBucket(v.id, 0)}}
		enc := verifEncode(m, 40)
		if verifNondetBool() {
			buf := make([]byte, 44)
			verifFill(buf)
			copy(buf, enc)
			v.sock.deliver(buf, src)
			verifReach("trailing")
		} else {
			v.sock.in <- verifDatagram{b: enc, n: verifChoice(2, 39), addr: src}
			verifQuiesce()
			verifReach("truncated")
		}
	}
	verifStillServes(v, "after undecodable or odd datagrams")
	verifReach("end")
}

// Security extension enforced, every source address form, ping or announce_peer.
func VerifC01_SecureQuick() {
	isLocalNetwork(net.IP{8, 8, 8, 8}) // package initialisers of security.go run before the first summary
	v := verifStartServer(verifSrvOpt{noSecurity: false})
	v.lean = true
	verifFixTokenClock(v.s)
	src := verifUDPAddr4()
	var m krpc.Msg
	if verifNondetBool() {
		m = krpc.Msg{Q: "ping", Y: "q", T: verifSymString(1)}
		if verifNondetBool() {
			m.A = &krpc.MsgArgs{ID: verifPeerID(v.id, []int{0}, true)}
		}
	} else {
		m = verifInboundQuery(v, verifGroupAnnounce, []int{1}, src).m
	}
	v.sock.deliver(verifEncode(m, 60), src)
	verifStillServes(v, "with the security extension enforced")
	verifReach("end")
}

func VerifC01_MustFail() {
	v := verifStartServer(verifSrvOpt{noSecurity: true})
	verifStillServes(v, "twin")
	verifAssert(len(v.sock.sent) == 0, "twin: the fresh ping is not answered (must fail)")
}

// Hostile replies to the node's own in-flight queries: any subset of response fields present,
// absent or of the wrong kind, from the queried address with the right transaction id. The reply
// consumers (Query tail, GetPeers/FindNode/Ping/Get tails, TraversalQueryResult) must survive them.
func verifHostileReply(v *verifSrv, t string, full bool) krpc.Msg {
	m := krpc.Msg{T: t}
	m.Y = []string{"r", "e", "x", ""}[verifChoice(0, 3)]
	if verifNondetBool() {
		r := &krpc.Return{ID: verifPeerID(v.id, []int{0}, true)}
		if verifNondetBool() {
			tok := verifSymString(verifChoice(0, 1) * 4)
			r.Token = &tok
		}
		if full && verifNondetBool() {
			sq := verifNondetI64()
			r.Seq = &sq
		}
		if full && verifNondetBool() {
			r.Nodes = krpc.CompactIPv4NodeInfo{{ID: verifIDInBucket(v.id, 1), Addr: krpc.NodeAddr{IP: verifIP4(), Port: verifPort()}}}
		}
		if full && verifNondetBool() {
			r.Values = []krpc.NodeAddr{{IP: verifIP4(), Port: verifPort()}}
		}
		m.R = r
	}
	if verifNondetBool() {
		m.E = &krpc.Error{Code: int(verifNondetI64()), Msg: "x"}
	}
	return m
}

func VerifC01_HostileReplies()      { verifC01Hostile(true) }
func VerifC01_HostileRepliesQuick() { verifC01Hostile(false) }

func verifC01Hostile(full bool) {
	v := verifStartServer(verifSrvOpt{noSecurity: true})
	dst := &net.UDPAddr{IP: net.IP{10, 0, 0, 7}, Port: 7007}
	addr := NewAddr(dst)
	target := verifIDInBucket(v.id, 4).Int160()
	done := false
	api := verifChoice(0, 3)
	before := len(v.sock.sent)
	go func() {
		switch api {
		case 0:
			res := v.s.GetPeers(context.Background(), addr, target, verifNondetBool(), QueryRateLimiting{})
			_ = res.TraversalQueryResult(addr.KRPC())
			_ = res.ToError()
		case 1:
			res := v.s.FindNode(addr, target, QueryRateLimiting{})
			_ = res.TraversalQueryResult(addr.KRPC())
		case 2:
			_ = v.s.Ping(dst).ToError()
		case 3:
			res := v.s.Get(context.Background(), addr, target.AsByteArray(), nil, QueryRateLimiting{})
			_ = res.ToError()
		}
		done = true
	}()
	verifQuiesce()
	if len(v.sock.sent) == before {
		verifReach("unsent")
		return
	}
	tid := v.sock.sent[before].msg.T
	v.sock.deliver(verifEncode(verifHostileReply(v, tid, full), 70), dst)
	verifAssert(done, "C01: the public query API returns once the (hostile) reply has arrived")
	verifStillServes(v, "after a hostile reply to an in-flight query")
	verifReach("end")
}

// Table maintenance in flight: TableMaintainer (questionable-node pings, bucket refresh traversal over
// the table's own contacts) runs on a populated table while a datagram arrives; the remote nodes
// never answer. The node still answers the ping, the API returns, and after Close the maintainer
// returns and nothing stays blocked (engine verdict). Every lock the maintainer and its traversal
// take while the serve loop wants the server lock is part of the run (sync.RWMutex semantics of the
// engine: a waiting writer holds back new readers).
func VerifC01_MaintainerDatagram()     { verifC01Maintainer(2) }
func VerifC01_MaintainerDatagramLong() { verifC01Maintainer(4) }

func verifC01Maintainer(rounds int) {
	verifLimiterAlwaysGrants()
	v := verifStartServer(verifSrvOpt{noSecurity: true, concreteID: true})
	verifFreezeClock(true)
	// (TableMaintainer works on the first bucket that is not full and good - bucket 0 here; a
	// questionable contact there is pinged)
	for i, b := range []int{0, 5} {
		verifAddContact(v, verifContact{
			state: []int{verifGood, verifStale}[verifChoice(0, 1-i)], bucket: b,
			id:   verifConcreteIDInBucket(v.id, b, byte(i+1)),
			addr: &net.UDPAddr{IP: net.IP{198, 51, 100, byte(10 + i)}, Port: 2000 + i},
		})
	}
	if verifNondetBool() {
		// bootstrapped a moment ago: the maintainer goes straight to the buckets
		v.s.mu.Lock()
		v.s.lastBootstrap = time.Now()
		v.s.mu.Unlock()
	}
	// a ping that arrives at a moment of the scheduler's choosing while the maintainer works (at the
	// latest when everything else has come to rest)
	early := &net.UDPAddr{IP: net.IP{203, 0, 113, 8}, Port: 40001}
	earlyPing := verifEncode(krpc.Msg{Q: "ping", Y: "q", T: "yy", A: &krpc.MsgArgs{ID: verifConcreteIDInBucket(v.id, 2, 9)}}, 50)
	go func() {
		verifDormant()
		v.sock.in <- verifDatagram{b: earlyPing, n: -1, addr: early}
	}()
	done := false
	go func() {
		v.s.TableMaintainer()
		done = true
	}()
	verifQuiesce()
	answered := 0
	for _, w := range v.sock.sent {
		if verifSameUDP(w.addr, early) && w.msg.Y == "r" && w.msg.T == "yy" {
			answered++
		}
	}
	verifAssert(answered == 1, "C01: a ping arriving during table maintenance is answered")
	verifStillServes(v, "during table maintenance")
	for i := 0; i < rounds && !done && verifFireTimers() > 0; i++ {
		verifQuiesce()
	}
	verifStillServes(v, "after resend intervals and the maintainer's next round")
	v.s.Close()
	verifQuiesce()
	for i := 0; i < 8 && !done && verifFireTimers() > 0; i++ {
		verifQuiesce()
	}
	verifAssert(done, "C01: TableMaintainer returns once the server is closed")
	verifReach("end")
}
