package dht

import (
	"context"
	"net"

	"github.com/anacrolix/dht/v2/krpc"
)

// C01: hostile replies to the node's own *lookups*. Bootstrap or an announce traversal runs against a
// starting node; every query the lookup writes (to the starting node and to whatever it lists) is
// answered - or not - with a reply whose fields are present, absent or adversarial: no "r", an ID that
// is arbitrary / the node's own / zero, no token or an empty one, a node list naming the node's own
// address, a zero port, the starting node again under another ID, its v4-mapped form, or a further
// node (which is then queried and answers in the same fashion). The lookup returns, the node still
// serves, nothing panics and nothing stays blocked (engine verdicts).

var verifHostileStart = &net.UDPAddr{IP: net.IP{10, 0, 0, 7}, Port: 7007}
var verifHostileNext = &net.UDPAddr{IP: net.IP{10, 0, 0, 9}, Port: 7009}

// verifHostileReturn builds one adversarial response body.
func verifHostileReturn(v *verifSrv, idKind, tokKind, listKind int, values bool) *krpc.Return {
	other := krpc.ID{0x31, 0x41, 0x59}
	r := &krpc.Return{}
	switch idKind {
	case 0:
		r.ID = other
	case 1:
		r.ID = v.id
	}
	switch tokKind {
	case 1:
		tok := ""
		r.Token = &tok
	case 2:
		tok := "tk"
		r.Token = &tok
	}
	switch listKind {
	case 1: // the node itself
		r.Nodes = krpc.CompactIPv4NodeInfo{{ID: v.id, Addr: krpc.NodeAddr{IP: net.IP{10, 0, 0, 1}, Port: 4444}}}
	case 2: // port zero, zero ID
		r.Nodes = krpc.CompactIPv4NodeInfo{{Addr: krpc.NodeAddr{IP: net.IP{10, 0, 0, 8}, Port: 0}}}
	case 3: // the starting node again under another ID, twice in one list
		e := krpc.NodeInfo{ID: krpc.ID{0x27, 0x18}, Addr: krpc.NodeAddr{IP: verifHostileStart.IP, Port: verifHostileStart.Port}}
		r.Nodes = krpc.CompactIPv4NodeInfo{e, e}
	case 4: // its v4-mapped form in nodes6
		r.Nodes6 = krpc.CompactIPv6NodeInfo{{ID: other, Addr: krpc.NodeAddr{IP: verifHostileStart.IP.To16(), Port: verifHostileStart.Port}}}
	case 5: // a further node
		r.Nodes = krpc.CompactIPv4NodeInfo{{ID: verifConcreteIDInBucket(v.id, 1, 3), Addr: krpc.NodeAddr{IP: verifHostileNext.IP, Port: verifHostileNext.Port}}}
	}
	if values {
		r.Values = []krpc.NodeAddr{{IP: net.IP{0, 0, 0, 0}, Port: 0}}
	}
	return r
}

// verifHostileLookupReply: silence, an error, a response without "r", or an adversarial response -
// one of a fixed list (quick) or any combination of ID kind x token kind x list kind x values (full).
func verifHostileLookupReply(v *verifSrv, t string, full bool) (m krpc.Msg, ok bool) {
	if full {
		switch verifChoice(0, 3) {
		case 0:
			return m, false
		case 1:
			return krpc.Msg{Y: "e", T: t, E: &krpc.Error{Code: 202, Msg: "server error"}}, true
		case 2:
			return krpc.Msg{Y: "r", T: t}, true
		}
		return krpc.Msg{Y: "r", T: t, R: verifHostileReturn(v, verifChoice(0, 2), verifChoice(0, 2), verifChoice(0, 5), verifNondetBool())}, true
	}
	switch verifChoice(0, 9) {
	case 0:
		return m, false
	case 1:
		return krpc.Msg{Y: "e", T: t, E: &krpc.Error{Code: 202, Msg: "server error"}}, true
	case 2:
		return krpc.Msg{Y: "r", T: t}, true
	case 3:
		return krpc.Msg{Y: "r", T: t, R: verifHostileReturn(v, 1, 0, 1, false)}, true
	case 4:
		return krpc.Msg{Y: "r", T: t, R: verifHostileReturn(v, 2, 1, 2, true)}, true
	case 5:
		return krpc.Msg{Y: "r", T: t, R: verifHostileReturn(v, 0, 2, 3, false)}, true
	case 6:
		return krpc.Msg{Y: "r", T: t, R: verifHostileReturn(v, 0, 2, 4, true)}, true
	case 7:
		return krpc.Msg{Y: "r", T: t, R: verifHostileReturn(v, 0, 2, 5, false)}, true
	case 8:
		return krpc.Msg{Y: "r", T: t, R: verifHostileReturn(v, 0, 0, 0, true)}, true
	}
	return krpc.Msg{Y: "r", T: t, R: verifHostileReturn(v, 1, 2, 5, true)}, true
}

func VerifC01_HostileLookups()     { verifC01HostileLookups(false) }
func VerifC01_HostileLookupsFull() { verifC01HostileLookups(true) }

func verifC01HostileLookups(full bool) {
	verifLimiterAlwaysGrants()
	v := verifStartServer(verifSrvOpt{noSecurity: true, concreteID: true})
	verifFreezeClock(true)
	v.s.config.StartingNodes = func() ([]Addr, error) { return []Addr{NewAddr(verifHostileStart)}, nil }
	done := false
	api := verifChoice(0, 1)
	go func() {
		switch api {
		case 0:
			_, _ = v.s.BootstrapContext(context.Background())
		case 1:
			a, err := v.s.AnnounceTraversal(krpc.ID{0x11, 0x22, 0x33}, AnnouncePeer(AnnouncePeerOpts{Port: 4242, ImpliedPort: verifNondetBool()}))
			if err == nil {
				for range a.Peers {
				}
				<-a.Finished()
			}
		}
		done = true
	}()
	verifQuiesce()
	next := 0
	seen := map[string]bool{}
	decisions := 0 // the full product of reply shapes applies to the first reply; later ones use the list
	for step := 0; step < 8 && !done; step++ {
		progressed := false
		for ; next < len(v.sock.sent) && !progressed; next++ {
			w := v.sock.sent[next]
			if w.msg.Y != "q" {
				continue
			}
			// one decision per (destination, method): resends of a query left unanswered stay unanswered
			key := w.addr.String() + "/" + w.msg.Q
			if seen[key] {
				continue
			}
			seen[key] = true
			decisions++
			if w.msg.Q == "announce_peer" {
				switch verifChoice(0, 2) {
				case 1:
					v.sock.deliver(verifEncode(krpc.Msg{Y: "r", T: w.msg.T, R: &krpc.Return{ID: krpc.ID{0x31}}}, 60), w.addr.(*net.UDPAddr))
					progressed = true
				case 2:
					v.sock.deliver(verifEncode(krpc.Msg{Y: "e", T: w.msg.T, E: &krpc.Error{Code: 203, Msg: "bad token"}}, 60), w.addr.(*net.UDPAddr))
					progressed = true
				}
				continue
			}
			if m, ok := verifHostileLookupReply(v, w.msg.T, full && decisions == 1); ok {
				v.sock.deliver(verifEncode(m, 70), w.addr.(*net.UDPAddr))
				progressed = true
			}
		}
		if !progressed {
			if verifFireTimers() == 0 {
				break
			}
			verifQuiesce()
		}
	}
	for i := 0; i < 6 && !done; i++ {
		verifFireTimers()
		verifQuiesce()
	}
	verifAssert(done, "C01: the lookup API returns whatever the remote nodes reply")
	for i := 0; i < 4 && verifFireTimers() > 0; i++ {
		verifQuiesce()
	}
	for _, w := range v.sock.sent {
		if u, ok := w.addr.(*net.UDPAddr); ok {
			verifAssert(u.Port != 0, "C04: no datagram is written to port zero")
		}
	}
	verifStillServes(v, "after hostile replies to a lookup")
	verifReach("end")
}
