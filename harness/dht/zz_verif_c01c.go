package dht

import (
	"net"

	"github.com/anacrolix/dht/v2/krpc"
)

// C01: a put that the node must refuse does not wedge it. A mutable item is stored; a second,
// well-formed and correctly tokened put for the same target is refused (older sequence number, cas
// mismatch, or a signature that does not verify); afterwards gets for that target and for another
// one are answered, a third put is handled, a fresh ping is answered and the API returns. A lock
// left held on the refusal path would stop the serve goroutine at the next BEP 44 query.
func VerifC01_RefusedPutThenServes() {
	verifLimiterAlwaysGrants()
	v := verifStartServer(verifSrvOpt{noSecurity: true, concreteID: true})
	verifFixTokenClock(v.s)
	verifFreezeClock(true)
	from := &net.UDPAddr{IP: net.IP{192, 0, 2, 9}, Port: 4001}
	var p verifPutArgs
	verifFill(p.k[:])
	verifAssume(p.k != [32]byte{})
	verifFill(p.sig[:])
	p.val = []byte("v1")
	p.seq = 5
	verifAssume(p.verifies())
	verifTargetInBucket0(v, p.target())
	r1 := verifWirePut(v, from, p, true)
	verifAssert(r1 != nil && r1.Y == "r", "C13: the first put is stored")
	q := p
	want := 0
	switch verifChoice(0, 2) {
	case 0:
		q.seq = 4
		want = 302
	case 1:
		q.seq = 6
		q.cas = 9
		want = 301
	case 2:
		q.seq = 6
		want = 206
	}
	verifFill(q.sig[:])
	if want == 206 {
		verifAssume(!q.verifies())
	} else {
		verifAssume(q.verifies())
	}
	r2 := verifWirePut(v, from, q, true)
	verifAssert(verifErrCode(r2) == want, "C12/C13: the second put is refused with its BEP 44 error code")
	g := verifWireGet(v, from, p.target(), nil)
	verifAssert(g != nil && g.R != nil && g.R.Seq != nil && *g.R.Seq == 5, "C01: after a refused put a get for that target is still answered, with the item left in place")
	other := verifWireGet(v, from, verifIDInBucket(v.id, 1), nil)
	verifAssert(other != nil && other.R != nil, "C01: ... and so is a get for another target")
	// a third, acceptable put
	n := p
	n.seq = 7
	verifFill(n.sig[:])
	verifAssume(n.verifies())
	r3 := verifWirePut(v, from, n, true)
	verifAssert(r3 != nil && r3.Y == "r", "C01: a later acceptable put is still handled")
	verifStillServes(v, "after a refused put")
	verifReach("end")
}

// C01: a correctly tokened put whose optional fields are present or absent in every combination -
// key (immutable items carry none), seq, value, salt, cas - never takes the node down: it is answered
// (response or KRPC error) or ignored, and the node still serves afterwards. (The token is obtained
// the way a remote node does, so the handler runs past its token check.)
func VerifC01_PutFieldSubsets() {
	verifLimiterAlwaysGrants()
	v := verifStartServer(verifSrvOpt{noSecurity: true, concreteID: true})
	verifFixTokenClock(v.s)
	verifFreezeClock(true)
	from := &net.UDPAddr{IP: net.IP{192, 0, 2, 9}, Port: 4001}
	a := &krpc.MsgArgs{ID: verifConcreteIDInBucket(v.id, 0, 1), Token: v.s.createToken(NewAddr(from))}
	if verifNondetBool() {
		verifFill(a.K[:])
		verifFill(a.Sig[:])
	}
	if verifNondetBool() {
		sq := int64(verifChoice(0, 1))
		a.Seq = &sq
	}
	if verifNondetBool() {
		a.V = "vv"
	}
	if verifNondetBool() {
		a.Salt = []byte("s")
	}
	if verifNondetBool() {
		a.Cas = 3
	}
	before := len(v.sock.sent)
	v.sock.deliver(verifEncode(krpc.Msg{Q: "put", Y: "q", T: "pf", A: a}, 80), from)
	n := 0
	for _, w := range v.sock.sent[before:] {
		if w.msg.Y != "q" {
			n++
			verifAssert(w.msg.T == "pf" && (w.msg.Y == "r" || w.msg.Y == "e"), "C08: the answer to a put is a response or an error echoing its transaction ID")
		}
	}
	verifAssert(n <= 1, "C08: at most one datagram answers a put")
	verifStillServes(v, "after a put with an arbitrary subset of its fields")
	verifReach("end")
}
