package dht

import (
	"net"
	"time"

	"github.com/anacrolix/dht/v2/int160"
	"github.com/anacrolix/dht/v2/krpc"
)

// C05: the routing table stays well formed under histories of updateNode (the single entry point
// through which inbound queries, responses and the AddNode API reach the table) and failed pings.

func verifServerForTable(k int) *Server {
	var root krpc.ID
	verifFill(root[:])
	s := &Server{}
	s.id = int160.FromByteArray(root)
	s.table.rootID = s.id
	s.table.k = k
	s.config.NoSecurity = true
	return s
}

func verifTableAddrs() []Addr {
	return []Addr{
		verifAddr(net.IP{1, 2, 3, 4}, 1000, "1.2.3.4:1000"),
		verifAddr(net.IP{1, 2, 3, 4}, 1001, "1.2.3.4:1001"),
	}
}

// verifTableInvariant walks the buckets directly (not through the table's own accessors).
func verifTableInvariant(s *Server) {
	t := &s.table
	total := 0
	indexed := 0
	for _, ids := range t.addrs {
		verifAssert(len(ids) > 0, "C05: no empty per-address index entry")
		indexed += len(ids)
	}
	for bi := range t.buckets {
		b := &t.buckets[bi]
		verifAssert(len(b.nodes) <= t.k, "C05: no bucket holds more than K entries")
		for n := range b.nodes {
			total++
			verifAssert(n.Id != t.rootID, "C05: the node's own ID never appears")
			verifAssert(!n.Id.IsZero(), "C05: the all-zero ID never appears")
			var x int160.T
			x.Xor(&t.rootID, &n.Id)
			verifAssert(bi == refPrefixLen160(x), "C05: every entry sits in the bucket of its shared prefix length")
			_, ok := t.addrs[n.Addr.String()][n.Id]
			verifAssert(ok, "C05: every entry is in the address index")
			for m := range b.nodes {
				if m != n {
					verifAssert(!(m.Id == n.Id && m.Addr.String() == n.Addr.String()), "C05: no two entries share both ID and address")
				}
			}
		}
	}
	verifAssert(indexed == total, "C05: address index and buckets hold the same entries")
	verifAssert(s.numNodes() == total, "C05: reported node count agrees with the entries")
}

// refPrefixLen160: number of leading zero bits of a 160-bit value, written independently of BitLen.
func refPrefixLen160(x int160.T) int {
	b := x.AsByteArray()
	n := 0
	for i := 0; i < 20; i++ {
		for bit := 7; bit >= 0; bit-- {
			if b[i]>>uint(bit)&1 != 0 {
				return n
			}
			n++
		}
	}
	return n
}

// verifContactID: an arbitrary ID whose shared prefix with root is one of a few lengths (so that the
// bucket array index is decided per path), or the root ID itself, or the all-zero ID.
func verifContactID(root int160.T) (id krpc.ID) {
	prefixes := []int{0, 1, 8, 159}
	c := verifChoice(0, len(prefixes)+1)
	switch {
	case c == len(prefixes):
		return krpc.ID(root.AsByteArray())
	case c == len(prefixes)+1:
		return krpc.ID{}
	}
	p := prefixes[c]
	var d [20]byte
	verifFill(d[:])
	for bit := 0; bit < p; bit++ {
		verifAssume(d[bit/8]>>(7-uint(bit%8))&1 == 0)
	}
	verifAssume(d[p/8]>>(7-uint(p%8))&1 == 1)
	rb := root.AsByteArray()
	for i := range id {
		id[i] = rb[i] ^ d[i]
	}
	return
}

func verifC05History(steps, k int) {
	s := verifServerForTable(k)
	addrs := verifTableAddrs()
	for i := 0; i < steps; i++ {
		id := verifContactID(s.id)
		addr := addrs[verifChoice(0, len(addrs)-1)]
		responded := verifNondetBool()
		failed := verifNondetBool()
		s.updateNode(addr, &id, true, func(n *node) {
			if responded {
				n.lastGotResponse = time.Now()
			} else {
				n.lastGotQuery = time.Now()
			}
			n.failedLastQuestionablePing = failed // a ping time-out recorded on the entry
		})
		verifTableInvariant(s)
	}
	verifReach("end")
}

func VerifC05_History2_K1() { verifC05History(2, 1) }
func VerifC05_History3_K2() { verifC05History(3, 2) }

func VerifC05_MustFail() {
	s := verifServerForTable(1)
	addrs := verifTableAddrs()
	for i := 0; i < 2; i++ {
		id := verifContactID(s.id)
		s.updateNode(addrs[i], &id, true, func(n *node) { n.lastGotResponse = time.Now() })
	}
	verifAssert(s.numNodes() == 2, "twin: two distinct contacts always both fit (must fail)")
	verifReach("end")
}
