package dht

import (
	"context"
	"net"
	"time"

	"github.com/anacrolix/dht/v2/int160"
	"github.com/anacrolix/dht/v2/krpc"
)

// C05 / C06: the routing table under histories of the events that reach it - inbound queries (through
// the real serve loop and handleQuery), responses and failed pings (Server.updateNode with the closures
// the handlers use), and the AddNode API - on a real NewServer whose bucket size is lowered so that
// full buckets, replacement and refusal are reached by short histories (the code is parametric in k).

// verifTableInvariant walks the buckets directly (not through the table's own accessors).
func verifTableInvariant(s *Server) {
	verifMapOrders(false)
	defer verifMapOrders(true)
	s.mu.RLock()
	t := &s.table
	total, indexed, good, notBad := 0, 0, 0, 0
	type ent struct {
		id   int160.T
		addr string
	}
	var live []ent
	for _, ids := range t.addrs {
		verifAssert(len(ids) > 0, "C05: no empty per-address index entry")
		indexed += len(ids)
	}
	for bi := range t.buckets {
		b := &t.buckets[bi]
		if len(b.nodes) == 0 {
			continue
		}
		verifAssert(len(b.nodes) <= t.k, "C05: no bucket holds more than K entries")
		for n := range b.nodes {
			total++
			verifAssert(n.Id != t.rootID, "C05: the node's own ID never appears")
			verifAssert(!n.Id.IsZero(), "C05: the all-zero ID never appears")
			verifAssert(bi == verifPrefixLen(t.rootID, n.Id), "C05: every entry sits in the bucket of its shared prefix length")
			_, ok := t.addrs[n.Addr.String()][n.Id]
			verifAssert(ok, "C05: every entry is in the address index")
			for m := range b.nodes {
				if m != n {
					verifAssert(!(m.Id == n.Id && m.Addr.String() == n.Addr.String()), "C05: no two entries share both ID and address")
				}
			}
			if s.IsGood(n) {
				good++
			}
			// what Nodes() documents it exports: the entries that are not bad (written out here
			// independently of Server.nodeIsBad)
			if !n.failedLastQuestionablePing && (s.config.NoSecurity || NodeIdSecure(n.Id.AsByteArray(), n.Addr.IP())) {
				notBad++
				live = append(live, ent{n.Id, n.Addr.String()})
			}
		}
	}
	verifAssert(indexed == total, "C05: address index and buckets hold the same entries")
	s.mu.RUnlock()
	verifAssert(s.NumNodes() == total, "C05: NumNodes agrees with the entries")
	st := s.Stats()
	verifAssert(st.Nodes == total && st.GoodNodes == good, "C05: Stats agrees with the entries")
	exported := s.Nodes()
	verifAssert(len(exported) == notBad, "C05: the exported node list holds exactly the entries that are not bad")
	for _, e := range live {
		found := 0
		for _, ni := range exported {
			if int160.FromByteArray(ni.ID) == e.id && NewAddr(ni.Addr.UDP()).String() == e.addr {
				found++
			}
		}
		verifAssert(found == 1, "C05: every entry that is not bad appears exactly once in the exported node list")
	}
}

// verifPrefixLen: shared leading bits of two ids, written independently of int160.BitLen.
func verifPrefixLen(a, b int160.T) int {
	x, y := a.AsByteArray(), b.AsByteArray()
	n := 0
	for i := 0; i < 20; i++ {
		d := x[i] ^ y[i]
		for bit := 7; bit >= 0; bit-- {
			if d>>uint(bit)&1 != 0 {
				return n
			}
			n++
		}
	}
	return n
}

// The address universe: one IPv4 endpoint in its 4-byte and in its 16-byte form (same address string),
// the same IP on another port, and another IP.
func verifTableAddr(i int) *net.UDPAddr {
	switch i {
	case 0:
		return &net.UDPAddr{IP: net.IP{203, 0, 113, 7}, Port: 6881}
	case 1:
		return &net.UDPAddr{IP: net.IPv4(203, 0, 113, 7), Port: 6881}
	case 2:
		return &net.UDPAddr{IP: net.IP{203, 0, 113, 7}, Port: 6882}
	}
	return &net.UDPAddr{IP: net.IP{198, 51, 100, 9}, Port: 6881}
}

const (
	verifEvQuery = iota
	verifEvResponse
	verifEvAddNode
	verifEvFailedPing
	verifEvTimePasses
)

// verifTableEvent applies one event to the table.
func verifTableEvent(v *verifSrv, ev int, id krpc.ID, addr *net.UDPAddr) {
	s := v.s
	switch ev {
	case verifEvQuery: // an inbound ping through the serve loop
		m := krpc.Msg{Q: "ping", Y: "q", T: "tq", A: &krpc.MsgArgs{ID: id}, ReadOnly: verifNondetBool()}
		v.sock.deliver(verifEncode(m, 50), addr)
	case verifEvResponse: // what processPacket does for a response matched to a transaction
		s.mu.Lock()
		s.updateNode(NewAddr(addr), &id, true, func(n *node) {
			n.lastGotResponse = time.Now()
			n.failedLastQuestionablePing = false
			n.numReceivesFrom++
		})
		s.mu.Unlock()
	case verifEvAddNode:
		s.AddNode(krpc.NodeInfo{ID: id, Addr: krpc.NodeAddr{IP: addr.IP, Port: addr.Port}})
		verifFireTimers()
		verifQuiesce()
	case verifEvFailedPing: // what questionableNodePing does after a time-out
		s.mu.Lock()
		s.updateNode(NewAddr(addr), &id, false, func(n *node) { n.failedLastQuestionablePing = true })
		s.mu.Unlock()
	case verifEvTimePasses:
		verifFreezeClock(false)
		time.Now()
		verifFreezeClock(true)
	}
}

// One step from a bucket of the real size K=8 holding 7 or 8 contacts (all good but the last, which is
// good, bad or never-answered), under every event, ID choice and address form.
func VerifC05_Step8() {
	verifLimiterAlwaysGrants()
	v := verifStartServer(verifSrvOpt{noSecurity: true, concreteID: true})
	verifFreezeClock(true)
	n := verifChoice(7, 8)
	for i := 0; i < n; i++ {
		st := verifGood
		if i == n-1 {
			st = []int{verifGood, verifFailedPing, verifQueriedOnly}[verifChoice(0, 2)]
		}
		ad := &net.UDPAddr{IP: net.IP{198, 51, 100, byte(20 + i)}, Port: 3000 + i}
		if i == 0 {
			ad = verifTableAddr(0)
		}
		verifAddContact(v, verifContact{state: st, bucket: 4, id: verifConcreteIDInBucket(v.id, 4, byte(i+1)), addr: ad})
	}
	verifTableInvariant(v.s)
	var id krpc.ID
	switch verifChoice(0, 3) {
	case 0:
		id = verifConcreteIDInBucket(v.id, 4, 1)
	case 1:
		id = verifConcreteIDInBucket(v.id, 4, 77)
	case 2:
		id = v.id
	case 3:
	}
	verifTableEvent(v, verifChoice(0, 4), id, verifTableAddr(verifChoice(0, 3)))
	verifTableInvariant(v.s)
	verifAssert(v.s.NumNodes() <= 8, "C05: the bucket never holds more than K=8 entries")
	verifReach("end")
}

func verifC05History(steps, k int, ids []int) {
	verifLimiterAlwaysGrants()
	v := verifStartServer(verifSrvOpt{noSecurity: true})
	v.s.table.k = k
	verifFreezeClock(true)
	for i := 0; i < steps; i++ {
		ev := verifChoice(0, 4)
		id := verifPeerID(v.id, ids, true)
		addr := verifTableAddr(verifChoice(0, 3))
		verifTableEvent(v, ev, id, addr)
		verifTableInvariant(v.s)
	}
	verifReach("end")
}

func VerifC05_History2_K1() { verifC05History(2, 1, []int{0}) }
func VerifC05_History2_K2() { verifC05History(2, 2, []int{0, 9}) }
// Three events with a bucket of size 1: events {query, response, AddNode, failed ping}, IDs arbitrary in
// bucket 0 or own or zero, the endpoint in its two address forms.
func VerifC05_History3_K1() {
	verifLimiterAlwaysGrants()
	v := verifStartServer(verifSrvOpt{noSecurity: true})
	v.s.table.k = 1
	verifFreezeClock(true)
	for i := 0; i < 3; i++ {
		ev := verifChoice(0, 3)
		id := verifPeerID(v.id, []int{0}, true)
		verifTableEvent(v, ev, id, verifTableAddr(verifChoice(0, 1)))
		verifTableInvariant(v.s)
	}
	verifReach("end")
}

// One step from an arbitrary reachable table: a bucket of size 2 holding 0..2 contacts of arbitrary
// liveness class, then any event with any ID (same bucket, another bucket, the node's own, zero;
// possibly the ID of an existing entry) from any address (an existing entry's address in either form,
// or a new one). The invariant holds afterwards. Together with the histories from the empty table
// this covers histories of any length whose intermediate tables have this shape.
func VerifC05_Step() {
	verifLimiterAlwaysGrants()
	v := verifStartServer(verifSrvOpt{noSecurity: true, concreteID: true})
	v.s.table.k = 2
	verifFreezeClock(true)
	n := verifChoice(0, 2)
	var cs []verifContact
	for i := 0; i < n; i++ {
		c := verifContact{state: []int{verifGood, verifQueriedOnly, verifFailedPing, verifStale}[verifChoice(0, 3)], bucket: 4,
			id: verifConcreteIDInBucket(v.id, 4, byte(i+1)), addr: verifTableAddr(i * 3)}
		verifAddContact(v, c)
		cs = append(cs, c)
	}
	verifTableInvariant(v.s)
	var id krpc.ID
	switch verifChoice(0, 4) {
	case 0:
		id = verifConcreteIDInBucket(v.id, 4, 1) // the first entry's ID (if any)
	case 1:
		id = verifConcreteIDInBucket(v.id, 4, 7) // a new ID for the same bucket
	case 2:
		id = verifConcreteIDInBucket(v.id, 11, 1) // another bucket
	case 3:
		id = v.id
	case 4:
	}
	verifTableEvent(v, verifChoice(0, 4), id, verifTableAddr(verifChoice(0, 3)))
	verifTableInvariant(v.s)
	verifReach("end")
}

// The same endpoint reaching the table in its 4-byte and in its 16-byte form, under the same ID,
// through every pair of events: one entry.
func VerifC05_AddressForms() {
	verifLimiterAlwaysGrants()
	v := verifStartServer(verifSrvOpt{noSecurity: true})
	verifFreezeClock(true)
	id := verifIDInBucket(v.id, 0)
	verifTableEvent(v, []int{verifEvQuery, verifEvResponse, verifEvAddNode}[verifChoice(0, 2)], id, verifTableAddr(verifChoice(0, 1)))
	verifTableEvent(v, []int{verifEvQuery, verifEvResponse, verifEvAddNode}[verifChoice(0, 2)], id, verifTableAddr(verifChoice(0, 1)))
	verifTableInvariant(v.s)
	verifAssert(v.s.NumNodes() <= 1, "C05: one endpoint under one ID is one entry whatever form its IP arrives in")
	verifReach("end")
}

func VerifC05_MustFail() {
	verifLimiterAlwaysGrants()
	v := verifStartServer(verifSrvOpt{noSecurity: true})
	v.s.table.k = 1
	verifFreezeClock(true)
	for i := 0; i < 2; i++ {
		verifTableEvent(v, verifEvResponse, verifIDInBucket(v.id, 0), verifTableAddr(i*3))
	}
	verifAssert(v.s.NumNodes() == 2, "twin: two contacts always both fit one bucket of size 1 (must fail)")
}

// ---- C06: who gets in, who is displaced ----

// A bucket of size 2 filled with two contacts of arbitrary liveness class; then a newcomer for that
// bucket arrives by query or by response. Good entries stay; an entry is displaced only if it is bad,
// or if it never answered and the newcomer has just answered; an eligible newcomer gets in when
// there is room.
func VerifC06_Displacement() {
	verifLimiterAlwaysGrants()
	v := verifStartServer(verifSrvOpt{noSecurity: true, concreteID: true})
	v.s.table.k = 2
	verifFreezeClock(true)
	n := verifChoice(1, 2)
	var cs []verifContact
	for i := 0; i < n; i++ {
		c := verifContact{state: verifChoice(0, 4), bucket: 4, id: verifConcreteIDInBucket(v.id, 4, byte(i+1)),
			addr: &net.UDPAddr{IP: net.IP{198, 51, 100, byte(10 + i)}, Port: 2000 + i}}
		verifAddContact(v, c)
		cs = append(cs, c)
	}
	verifAssert(v.s.NumNodes() == n, "C06 harness: the bucket holds the contacts")
	newID := verifConcreteIDInBucket(v.id, 4, 9)
	newAddr := &net.UDPAddr{IP: net.IP{192, 0, 2, 50}, Port: 5000}
	answered := verifNondetBool()
	if answered {
		verifTableEvent(v, verifEvResponse, newID, newAddr)
	} else {
		m := krpc.Msg{Q: "ping", Y: "q", T: "tq", A: &krpc.MsgArgs{ID: newID}}
		v.sock.deliver(verifEncode(m, 50), newAddr)
	}
	verifMapOrders(false)
	in := func(id krpc.ID) bool {
		for _, ni := range verifAllNodes(v.s) {
			if ni.ID == id {
				return true
			}
		}
		return false
	}
	removed := 0
	for _, c := range cs {
		if in(c.id) {
			continue
		}
		removed++
		verifAssert(!c.good(), "C06: a contact that is currently good is never removed")
		bad := c.state == verifFailedPing
		neverAnswered := c.state == verifQueriedOnly
		verifAssert(bad || (neverAnswered && answered), "C06: an entry is displaced only if it is bad, or never answered while the newcomer has just answered")
	}
	if n < 2 {
		verifAssert(in(newID), "C06: an eligible sender is admitted whenever its bucket has room")
		verifAssert(removed == 0, "C06: nothing is displaced while there is room")
		verifReach("room")
	}
	if in(newID) && n == 2 {
		verifAssert(removed >= 1, "C06: a full bucket admits a newcomer only by displacing an entry")
		verifReach("displaced")
	}
	verifTableInvariant(v.s)
	verifReach("end")
}

// verifAllNodes lists every table entry (good or not).
func verifAllNodes(s *Server) (out []krpc.NodeInfo) {
	s.mu.RLock()
	defer s.mu.RUnlock()
	s.table.forNodes(func(n *node) bool {
		out = append(out, n.NodeInfo())
		return true
	})
	return
}

// Who is never admitted: read-only senders, the node's own ID, the zero ID, and - with the security
// extension enforced - IDs that are not valid for the sender's IP.
func VerifC06_Admission() {
	verifLimiterAlwaysGrants()
	isLocalNetwork(net.IP{8, 8, 8, 8})
	sec := verifNondetBool()
	v := verifStartServer(verifSrvOpt{noSecurity: !sec})
	src := verifUDPAddr4()
	id := verifPeerID(v.id, []int{0}, true)
	ro := verifNondetBool()
	m := krpc.Msg{Q: "ping", Y: "q", T: "tq", A: &krpc.MsgArgs{ID: id}, ReadOnly: ro}
	v.sock.deliver(verifEncode(m, 50), src)
	added := v.s.NumNodes() == 1
	eligible := !ro && id != v.id && !id.IsZero() && (!sec || NodeIdSecure(id, src.IP))
	verifAssert(added == eligible, "C06: a querying sender enters the (empty) table iff it is not read-only, its ID is neither the node's own nor zero, and - under enforcement - valid for its IP")
	if added {
		verifReach("added")
	}
	verifReach("end")
}

// Hearsay: contacts listed inside a reply never enter the table; the answering node itself does
// (unless its message is flagged read-only).
func VerifC06_Hearsay() {
	verifLimiterAlwaysGrants()
	v := verifStartServer(verifSrvOpt{noSecurity: true})
	dst := verifC07Addrs[0]
	p := verifStartQuery(v, context.Background(), dst, "find_node", QueryInput{})
	if !p.sent {
		return
	}
	responder := verifIDInBucket(v.id, 3)
	ro := verifNondetBool()
	m := krpc.Msg{Y: "r", T: p.tid, ReadOnly: ro, R: &krpc.Return{ID: responder,
		Nodes:  krpc.CompactIPv4NodeInfo{{ID: verifIDInBucket(v.id, 1), Addr: krpc.NodeAddr{IP: verifIP4(), Port: 7}}},
		Nodes6: krpc.CompactIPv6NodeInfo{{ID: verifIDInBucket(v.id, 2), Addr: krpc.NodeAddr{IP: verifIP16(), Port: 8}}},
		Values: []krpc.NodeAddr{{IP: verifIP4(), Port: 9}}}}
	v.sock.deliver(verifEncode(m, 90), dst)
	verifAssert(p.done && p.res.Err == nil, "C07: the reply completes the query")
	_ = p.res.TraversalQueryResult(krpc.NodeAddr{IP: dst.IP, Port: dst.Port})
	all := verifAllNodes(v.s)
	if ro {
		verifAssert(len(all) == 0, "C06: a responder flagged read-only is not added")
	} else {
		verifAssert(len(all) == 1 && all[0].ID == responder, "C06: only the answering node enters the table, never the contacts it lists")
		verifReach("added")
	}
	verifReach("end")
}

// A response that comes too late: the node's query to dst has ended without an answer - timed out,
// cancelled by its caller, or never written because the socket refused it - and then a response with
// that query's transaction ID arrives from dst. It answers no outstanding query: its sender does not
// enter the table.
func VerifC06_LateResponse() {
	verifLimiterAlwaysGrants()
	v := verifStartServer(verifSrvOpt{noSecurity: true})
	dst := verifC07Addrs[0]
	ctx, cancel := context.WithCancel(context.Background())
	defer cancel()
	how := verifChoice(0, 2)
	if how == 2 {
		v.sock.failAll = true
	}
	p := verifStartQuery(v, ctx, dst, "ping", QueryInput{NumTries: verifChoice(1, 2)})
	switch how {
	case 0:
		for i := 0; i < 4 && !p.done; i++ {
			verifFireTimers()
			verifQuiesce()
		}
		verifReach("timeout")
	case 1:
		cancel()
		verifQuiesce()
		verifReach("cancelled")
	case 2:
		for i := 0; i < 4 && !p.done; i++ {
			verifFireTimers()
			verifQuiesce()
		}
		verifReach("unsent")
	}
	if !p.done || p.res.Err == nil || len(v.sock.triedT) == 0 {
		return
	}
	v.sock.failAll = false
	tid := v.sock.triedT[0]
	m := krpc.Msg{Y: "r", T: tid, R: &krpc.Return{ID: verifIDInBucket(v.id, 3)}}
	v.sock.deliver(verifEncode(m, 50), dst)
	verifAssert(v.s.NumNodes() == 0, "C06: a response arriving after its query has ended (time-out, cancellation, failed send) is unsolicited: its sender does not enter the table")
	verifReach("end")
}

func VerifC06_MustFail() {
	verifLimiterAlwaysGrants()
	v := verifStartServer(verifSrvOpt{noSecurity: true})
	m := krpc.Msg{Q: "ping", Y: "q", T: "tq", A: &krpc.MsgArgs{ID: verifIDInBucket(v.id, 0)}}
	v.sock.deliver(verifEncode(m, 50), verifUDPAddr4())
	verifAssert(v.s.NumNodes() == 0, "twin: a querying sender never enters the table (must fail)")
}
