package dht

import (
	"net"
	"time"

	"github.com/anacrolix/dht/v2/krpc"
)

// C05 through the real maintenance path, with the pinged address answering under another ID than
// the one it is filed under (a restarted or lying node): a bucket (size lowered to 1) holds one
// questionable contact; the real TableMaintainer pings it; the reply - matching address and
// transaction ID - carries an ID of the same bucket or of the next one, whose bucket is empty or
// already holds a good contact, possibly this very address under that ID. Whatever the library makes
// of the new identity, the table stays well formed: no bucket above K, no duplicate (ID, address),
// index and buckets in step, every entry in the bucket of its prefix.
func VerifC05_PingReplyOtherID() {
	verifLimiterAlwaysGrants()
	v := verifStartServer(verifSrvOpt{noSecurity: true, concreteID: true})
	v.s.table.k = 1
	verifFreezeClock(true)
	old := verifContact{state: verifStale, bucket: 0, id: verifConcreteIDInBucket(v.id, 0, 1),
		addr: &net.UDPAddr{IP: net.IP{198, 51, 100, 10}, Port: 2000}}
	verifAddContact(v, old)
	rb := verifChoice(0, 1)
	respID := verifConcreteIDInBucket(v.id, rb, 9)
	switch verifChoice(0, 2) {
	case 1:
		// the bucket of the reply's ID is full of somebody else (good)
		if rb == 1 {
			verifAddContact(v, verifContact{state: verifGood, bucket: 1, id: verifConcreteIDInBucket(v.id, 1, 3),
				addr: &net.UDPAddr{IP: net.IP{198, 51, 100, 11}, Port: 2001}})
			verifReach("full")
		}
	case 2:
		// the new identity is already filed: same address, the reply's ID
		if rb == 1 {
			verifAddContact(v, verifContact{state: verifGood, bucket: 1, id: respID, addr: old.addr})
			verifReach("known")
		}
	}
	verifTableInvariant(v.s)
	v.s.mu.Lock()
	v.s.lastBootstrap = time.Now()
	v.s.mu.Unlock()
	done := false
	go func() {
		v.s.TableMaintainer()
		done = true
	}()
	verifQuiesce()
	var ping *verifSent
	for i := range v.sock.sent {
		w := &v.sock.sent[i]
		if w.msg.Y == "q" && w.msg.Q == "ping" && verifSameUDP(w.addr, old.addr) && w.msg.A != nil {
			ping = w
			break
		}
	}
	if ping == nil {
		verifFail("C05 harness: the maintainer pings the questionable contact of its first bucket")
		return
	}
	v.sock.deliver(verifEncode(krpc.Msg{Y: "r", T: ping.msg.T, R: &krpc.Return{ID: respID}}, 50), old.addr)
	verifQuiesce()
	verifTableInvariant(v.s)
	verifAssert(v.s.NumNodes() <= 2, "C05: two buckets of size 1 hold at most two entries")
	verifReach("answered")
	v.s.Close()
	verifQuiesce()
	for i := 0; i < 8 && !done && verifFireTimers() > 0; i++ {
		verifQuiesce()
	}
	verifReach("end")
}
