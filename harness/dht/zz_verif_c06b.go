package dht

import (
	"context"
	"net"
	"time"

	"github.com/anacrolix/dht/v2/krpc"
)

// C06 through the real maintenance path: a bucket (size lowered to 1) holds one questionable contact;
// the real TableMaintainer pings it (Server.questionableNodePing: three tries). The contact answers
// the ping, or never does. Then a newcomer for the same bucket queries this node. A contact that
// answered the ping is good again and is not displaced; one that did not is displaced only because it
// is bad now. The liveness fields are set by the library's own code here, not by the harness.
func VerifC06_PingOutcome() {
	verifLimiterAlwaysGrants()
	v := verifStartServer(verifSrvOpt{noSecurity: true, concreteID: true})
	v.s.table.k = 1
	verifFreezeClock(true)
	old := verifContact{state: verifStale, bucket: 0, id: verifConcreteIDInBucket(v.id, 0, 1),
		addr: &net.UDPAddr{IP: net.IP{198, 51, 100, 10}, Port: 2000}}
	verifAddContact(v, old)
	v.s.mu.Lock()
	v.s.lastBootstrap = time.Now()
	v.s.mu.Unlock()
	done := false
	go func() {
		v.s.TableMaintainer()
		done = true
	}()
	verifQuiesce()
	var ping *verifSent
	for i := range v.sock.sent {
		w := &v.sock.sent[i]
		if w.msg.Y == "q" && w.msg.Q == "ping" && verifSameUDP(w.addr, old.addr) {
			ping = w
			break
		}
	}
	if ping == nil {
		verifFail("C06 harness: the maintainer pings the questionable contact of its first bucket")
		return
	}
	in := func(id krpc.ID) bool {
		for _, ni := range verifAllNodes(v.s) {
			if ni.ID == id {
				return true
			}
		}
		return false
	}
	if verifNondetBool() {
		// somebody else wants the slot while the ping is still unanswered: the old contact has
		// answered before and is not bad - it stays
		earlyID := verifConcreteIDInBucket(v.id, 0, 5)
		earlyAddr := &net.UDPAddr{IP: net.IP{192, 0, 2, 51}, Port: 5001}
		if verifNondetBool() {
			v.sock.deliver(verifEncode(krpc.Msg{Q: "ping", Y: "q", T: "eq", A: &krpc.MsgArgs{ID: earlyID}}, 50), earlyAddr)
		} else {
			verifTableEvent(v, verifEvResponse, earlyID, earlyAddr)
		}
		verifAssert(in(old.id) && !in(earlyID), "C06: a questionable contact that is not bad is not displaced while its ping is pending")
		verifReach("early")
	}
	answers := verifNondetBool()
	if answers {
		v.sock.deliver(verifEncode(krpc.Msg{Y: "r", T: ping.msg.T, R: &krpc.Return{ID: old.id}}, 50), old.addr)
		verifReach("answered")
	} else {
		for i := 0; i < 4 && v.s.Stats().OutstandingTransactions > 0; i++ {
			verifFireTimers()
			verifQuiesce()
		}
		pings := 0
		for _, w := range v.sock.sent {
			if w.msg.Q == "ping" && verifSameUDP(w.addr, old.addr) {
				pings++
			}
		}
		verifAssert(pings == 3, "C14: a questionable contact is pinged with exactly three tries")
		verifReach("timed-out")
	}
	// the contact that missed its liveness ping answers a later query of this node (find_node, through
	// the real Query and processPacket): it has just answered, so it is good again
	recovered := false
	if !answers && verifNondetBool() {
		p := verifStartQuery(v, context.Background(), old.addr, "find_node", QueryInput{})
		if p.sent {
			v.sock.deliver(verifEncode(krpc.Msg{Y: "r", T: p.tid, R: &krpc.Return{ID: old.id}}, 50), old.addr)
			verifAssert(p.done && p.res.Err == nil, "C07: the contact's reply completes the query")
			recovered = true
			verifReach("recovered")
		}
	}
	// the newcomer
	newID := verifConcreteIDInBucket(v.id, 0, 7)
	newAddr := &net.UDPAddr{IP: net.IP{192, 0, 2, 50}, Port: 5000}
	v.sock.deliver(verifEncode(krpc.Msg{Q: "ping", Y: "q", T: "nq", A: &krpc.MsgArgs{ID: newID}}, 50), newAddr)
	verifMapOrders(false)
	if recovered {
		verifAssert(in(old.id), "C06: a contact that missed a liveness ping but has answered a query since is good and is never removed")
		verifAssert(!in(newID), "C06: a full bucket of good contacts admits nobody")
	} else if answers {
		verifAssert(in(old.id), "C06: a contact that has just answered this node's ping is good and is never removed")
		verifAssert(!in(newID), "C06: a full bucket of good contacts admits nobody")
	} else if !in(old.id) {
		verifAssert(in(newID), "C06: an entry leaves a full bucket only by being displaced")
		verifReach("displaced")
	}
	verifAssert(v.s.NumNodes() <= 1, "C05: the bucket holds at most K entries")
	verifTableInvariant(v.s)
	v.s.Close()
	verifQuiesce()
	for i := 0; i < 8 && !done && verifFireTimers() > 0; i++ {
		verifQuiesce()
	}
	verifAssert(done, "C14: TableMaintainer returns once the server is closed")
	verifReach("end")
}
