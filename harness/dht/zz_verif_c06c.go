package dht

import (
	"context"
	"net"

	"github.com/anacrolix/dht/v2/krpc"
)

// C06, blocked-address clause with a blocklist that changes at run time: the node queries X (ping or
// find_node) while X is not blocked; a list covering X is installed while the query is outstanding;
// then X's genuine reply arrives, and X also sends a query of its own. X never enters the table; an
// unblocked Y that queries afterwards does.
func VerifC06_BlockedLater() {
	verifLimiterAlwaysGrants()
	v := verifStartServer(verifSrvOpt{noSecurity: true, concreteID: true})
	x := &net.UDPAddr{IP: net.IP{10, 0, 0, 1}, Port: 6881}
	xid := verifConcreteIDInBucket(v.id, 3, 1)
	p := verifStartQuery(v, context.Background(), x, []string{"ping", "find_node"}[verifChoice(0, 1)], QueryInput{})
	if !p.sent {
		return
	}
	bl := &verifBlocklist{}
	copy(bl.ip[:], x.IP.To16())
	v.s.SetIPBlockList(bl)
	if verifNondetBool() {
		v.sock.deliver(verifEncode(krpc.Msg{Y: "r", T: p.tid, R: &krpc.Return{ID: xid}}, 50), x)
		verifReach("reply")
	}
	if verifNondetBool() {
		v.sock.deliver(verifEncode(krpc.Msg{Q: "ping", Y: "q", T: "xq", A: &krpc.MsgArgs{ID: xid}}, 50), x)
		verifReach("query")
	}
	verifAssert(v.s.NumNodes() == 0, "C06: a contact at a blocked address never enters the table, whether it answers an earlier query or queries itself")
	y := &net.UDPAddr{IP: net.IP{10, 0, 0, 2}, Port: 6881}
	v.sock.deliver(verifEncode(krpc.Msg{Q: "ping", Y: "q", T: "yq", A: &krpc.MsgArgs{ID: verifConcreteIDInBucket(v.id, 3, 2)}}, 50), y)
	all := verifAllNodes(v.s)
	verifAssert(len(all) == 1 && all[0].Addr.Port == y.Port && all[0].ID != xid, "C06: an eligible sender at an unblocked address is admitted")
	verifFireTimers()
	verifQuiesce()
	verifReach("end")
}
