package dht

import (
	"context"
	"net"

	"github.com/anacrolix/dht/v2/krpc"
)

// C07: an outbound query completes only with the datagram that comes from the exact address it was
// sent to and echoes its transaction id. The real Server.Query (transaction registration, sender
// goroutine, resend timers, context) runs under the scheduler; the harness plays the network.

type verifPending struct {
	v    *verifSrv
	dst  *net.UDPAddr
	res  QueryResult
	done bool
	tid  string
	sent bool // the query datagram went out
}

// verifStartQuery issues s.Query in its own goroutine and runs the node until the query is waiting.
func verifStartQuery(v *verifSrv, ctx context.Context, dst *net.UDPAddr, q string, in QueryInput) *verifPending {
	p := &verifPending{v: v, dst: dst}
	before := len(v.sock.sent)
	go func() {
		p.res = v.s.Query(ctx, NewAddr(dst), q, in)
		p.done = true
	}()
	verifQuiesce()
	if len(v.sock.sent) > before {
		w := v.sock.sent[before]
		p.sent = true
		p.tid = w.msg.T
		verifAssert(w.ok && w.msg.Y == "q" && w.msg.Q == q, "C07: the datagram written for a query is that query")
		verifAssert(verifSameUDP(w.addr, dst), "C07: the query is written to the address given")
		verifAssert(w.msg.A != nil && w.msg.A.ID == v.id, "C07: a query carries the node's own id")
	}
	return p
}

func (p *verifPending) outstanding() int { return p.v.s.Stats().OutstandingTransactions }

// verifGenuineReply: the queried node's answer - a response, or a KRPC error (which has no "r").
func verifGenuineReply(v *verifSrv, t string) krpc.Msg {
	if verifNondetBool() {
		return krpc.Msg{Y: "e", T: t, E: &krpc.Error{Code: 203, Msg: "nope"}}
	}
	return verifReplyMsg(v, t)
}

// verifSameReply: the reply a query returned is the datagram that answered it, and nothing else.
func verifSameReply(got, sent krpc.Msg, label string) {
	ok := got.Y == sent.Y && got.T == sent.T && got.Q == "" && got.A == nil && !got.ReadOnly
	ok = ok && (got.R == nil) == (sent.R == nil) && (got.E == nil) == (sent.E == nil)
	if ok && got.R != nil {
		ok = got.R.ID == sent.R.ID && len(got.R.Nodes) == len(sent.R.Nodes) && got.R.Token == nil
	}
	if ok && got.E != nil {
		ok = got.E.Code == sent.E.Code && got.E.Msg == sent.E.Msg
	}
	verifAssert(ok, label)
}

func verifReplyMsg(v *verifSrv, t string) krpc.Msg {
	return krpc.Msg{Y: "r", T: t, R: &krpc.Return{ID: verifIDInBucket(v.id, 3)}}
}

// The address universe is concrete here because transactions are keyed by the address *string*;
// it contains the destination, the same IP on ports whose decimal text is a prefix / an extension of
// the destination port, another IP on the same port, and the v4-mapped form of the destination.
var verifC07Addrs = []*net.UDPAddr{
	{IP: net.IP{10, 0, 0, 1}, Port: 6881},
	{IP: net.IP{10, 0, 0, 1}, Port: 688},
	{IP: net.IP{10, 0, 0, 1}, Port: 68810},
	{IP: net.IP{10, 0, 0, 1}, Port: 6882},
	{IP: net.IP{10, 0, 0, 2}, Port: 6881},
	{IP: net.IP{10, 0, 0, 11}, Port: 6881},
}

// One outstanding ping; one adversarial datagram (any listed address, any transaction id of length
// len(t)-1 .. len(t)+2); then the genuine reply; then a replay of it.
func VerifC07_OneQuery() {
	v := verifStartServer(verifSrvOpt{noSecurity: true})
	dst := verifC07Addrs[0]
	p := verifStartQuery(v, context.Background(), dst, "ping", QueryInput{})
	if !p.sent {
		// no send budget (the limiter refused): the query fails without a datagram
		verifAssert(p.done && p.res.Err != nil, "C07: a query that could not be sent fails")
		verifAssert(p.outstanding() == 0, "C14: a failed query leaves no pending transaction")
		verifReach("unsent")
		return
	}
	verifAssert(!p.done && p.outstanding() == 1, "C07: the query is outstanding until a reply arrives")
	// the adversary
	from := verifC07Addrs[verifChoice(0, len(verifC07Addrs)-1)]
	n := len(p.tid) - 1 + verifChoice(0, 3)
	t := verifSymString(n)
	y := []string{"r", "e", "x", "q"}[verifChoice(0, 3)]
	adv := krpc.Msg{Y: y, T: t}
	if y == "q" {
		// a query that happens to carry the pending transaction id completes nothing either
		adv.Q = "ping"
		adv.A = &krpc.MsgArgs{ID: verifIDInBucket(v.id, 5)}
	}
	if y == "r" {
		adv.R = &krpc.Return{ID: verifIDInBucket(v.id, 5)}
	}
	exact := from == dst && t == p.tid && y != "q"
	nodesBefore := v.s.NumNodes()
	writesBefore := v.sock.attempts
	v.sock.deliver(verifEncode(adv, 50), from)
	if y != "q" {
		verifAssert(v.sock.attempts == writesBefore, "C08: nothing is sent in reaction to a response, error or unknown message")
	}
	if !exact {
		verifAssert(!p.done, "C07: a datagram from another address or with another transaction id does not complete the query")
		verifAssert(p.outstanding() == 1, "C07: ... and leaves the pending transaction in place")
		if y != "q" {
			verifAssert(v.s.NumNodes() == nodesBefore, "C06: an unmatched response adds no routing-table entry")
		}
		verifReach("rejected")
		// the genuine reply still completes it
		genuine := verifGenuineReply(v, p.tid)
		v.sock.deliver(verifEncode(genuine, 50), dst)
		if p.done {
			verifSameReply(p.res.Reply, genuine, "C07: the query returns exactly the datagram that answered it (no field of an earlier datagram)")
		}
	}
	verifAssert(p.done, "C07: the reply from the queried address with the query's id completes the query")
	verifAssert(p.res.Err == nil && p.res.Reply.T == p.tid, "C07: the query returns that reply")
	verifAssert(p.outstanding() == 0, "C14: a completed query leaves no pending transaction")
	// replay of the genuine reply: completes nothing, adds nothing
	attempts := v.sock.attempts
	v.sock.deliver(verifEncode(verifReplyMsg(v, p.tid), 50), dst)
	verifAssert(v.sock.attempts == attempts && p.outstanding() == 0, "C07: a replayed reply has no effect")
	verifReach("end")
}

// Two queries outstanding at once (same or different destination): ids differ, and each reply
// completes exactly the query it belongs to.
func VerifC07_TwoQueries() {
	v := verifStartServer(verifSrvOpt{noSecurity: true})
	d1 := verifC07Addrs[0]
	d2 := verifC07Addrs[[]int{0, 3, 4}[verifChoice(0, 2)]]
	p1 := verifStartQuery(v, context.Background(), d1, "ping", QueryInput{})
	p2 := verifStartQuery(v, context.Background(), d2, "find_node", QueryInput{})
	if !p1.sent || !p2.sent {
		return
	}
	verifAssert(p1.tid != p2.tid, "C07: queries outstanding at the same time never share a transaction id")
	verifAssert(p1.outstanding() == 2, "C07: both are pending")
	// answer one of them (harness's choice), possibly with the other's id from the wrong address
	first, other := p1, p2
	if verifNondetBool() {
		first, other = p2, p1
	}
	if d1 != d2 {
		// the other query's id from this query's address must not complete anything
		v.sock.deliver(verifEncode(verifReplyMsg(v, other.tid), 50), first.dst)
		verifAssert(!p1.done && !p2.done, "C07: the right id from the wrong address completes nothing")
	}
	g1 := verifReplyMsg(v, first.tid)
	g1.R.Nodes = krpc.CompactIPv4NodeInfo{{ID: verifIDInBucket(v.id, 1), Addr: krpc.NodeAddr{IP: net.IP{10, 9, 9, 9}, Port: 7}}}
	v.sock.deliver(verifEncode(g1, 50), first.dst)
	verifAssert(first.done && !other.done, "C07: a reply completes exactly the query it answers")
	verifAssert(first.res.Reply.T == first.tid, "C07: ... with its own reply")
	verifSameReply(first.res.Reply, g1, "C07: the first query returns exactly its own reply")
	g2 := verifGenuineReply(v, other.tid)
	v.sock.deliver(verifEncode(g2, 50), other.dst)
	verifAssert(other.done && other.res.Reply.T == other.tid, "C07: the second reply completes the second query")
	verifSameReply(other.res.Reply, g2, "C07: the second query returns exactly its own reply, nothing of the first one's")
	verifAssert(p1.outstanding() == 0, "C14: no pending transaction is left")
	verifReach("end")
}

// Two queries to one address, one after the other (the node idle in between): a duplicate of the first
// query's reply that arrives while the second query is waiting completes nothing - each reply
// completes at most one query, whatever the history of earlier transactions with that address.
func VerifC07_ReplayAcrossQueries() {
	v := verifStartServer(verifSrvOpt{noSecurity: true})
	dst := verifC07Addrs[0]
	p1 := verifStartQuery(v, context.Background(), dst, "ping", QueryInput{})
	if !p1.sent {
		return
	}
	g1 := verifReplyMsg(v, p1.tid)
	v.sock.deliver(verifEncode(g1, 50), dst)
	verifAssert(p1.done && p1.res.Err == nil && p1.outstanding() == 0, "C07: the first query completes with its reply")
	verifQuiesce()
	p2 := verifStartQuery(v, context.Background(), dst, []string{"ping", "find_node"}[verifChoice(0, 1)], QueryInput{})
	if !p2.sent {
		return
	}
	// the earlier reply again, byte for byte
	v.sock.deliver(verifEncode(g1, 50), dst)
	verifAssert(!p2.done, "C07: a replay of an earlier query's reply does not complete a later query to the same address")
	verifAssert(p2.outstanding() == 1, "C07: ... and leaves its pending transaction in place")
	g2 := verifGenuineReply(v, p2.tid)
	v.sock.deliver(verifEncode(g2, 50), dst)
	verifAssert(p2.done && p2.res.Reply.T == p2.tid, "C07: the second query completes with its own reply")
	verifSameReply(p2.res.Reply, g2, "C07: the second query returns exactly its own reply")
	verifAssert(p2.outstanding() == 0, "C14: no pending transaction is left")
	verifReach("end")
}

func VerifC07_MustFail() {
	v := verifStartServer(verifSrvOpt{noSecurity: true})
	p := verifStartQuery(v, context.Background(), verifC07Addrs[0], "ping", QueryInput{})
	if p.sent {
		v.sock.deliver(verifEncode(verifReplyMsg(v, p.tid), 50), p.dst)
		verifAssert(!p.done, "twin: the genuine reply does not complete the query (must fail)")
	}
}
