package dht

import (
	"context"
	"net"
)

// C07, "exact address" for zoned link-local IPv6 peers: a query to [fe80::1%eth0]:6881 is not
// completed by a datagram with the right transaction ID from the same IP literal and port in another
// zone (another host on another interface), nor from the unzoned literal; the genuine reply from the
// zone queried completes it and is what the query returns.
func VerifC07_Zones() {
	v := verifStartServer(verifSrvOpt{noSecurity: true})
	ip := net.ParseIP("fe80::1")
	dst := &net.UDPAddr{IP: ip, Port: 6881, Zone: "eth0"}
	p := verifStartQuery(v, context.Background(), dst, "ping", QueryInput{})
	if !p.sent {
		return
	}
	imp := &net.UDPAddr{IP: ip, Port: 6881, Zone: []string{"eth1", "", "eth00"}[verifChoice(0, 2)]}
	forged := verifGenuineReply(v, p.tid)
	v.sock.deliver(verifEncode(forged, 50), imp)
	verifAssert(!p.done, "C07: a datagram from the same IP literal in another zone does not complete the query")
	verifAssert(p.outstanding() == 1, "C07: ... and leaves the pending transaction in place")
	verifAssert(v.s.NumNodes() == 0, "C06: ... and adds no routing-table entry")
	genuine := verifGenuineReply(v, p.tid)
	v.sock.deliver(verifEncode(genuine, 50), dst)
	verifAssert(p.done && p.res.Err == nil, "C07: the reply from the zone that was queried completes the query")
	if p.done {
		verifSameReply(p.res.Reply, genuine, "C07: the query returns exactly the datagram that answered it")
	}
	verifAssert(p.outstanding() == 0, "C14: no pending transaction is left")
	verifReach("end")
}
