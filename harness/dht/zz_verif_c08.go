package dht

import (
	"net"
	"time"

	"github.com/anacrolix/dht/v2/krpc"
	peer_store "github.com/anacrolix/dht/v2/peer-store"
)

// C08: what the node sends in reaction to one inbound datagram, for every method, argument shape,
// transaction id and source address. The datagram goes through the real serve loop, processPacket,
// handleQuery, reply/sendError and writeToNode; the fake socket records what is written.

// verifFixTokenClock pins the token server's injectable clock (token timing is C10's subject).
func verifFixTokenClock(s *Server) {
	t0 := time.Unix(1700000000, 0)
	s.tokenServer.timeNow = func() time.Time { return t0 }
}

type verifQuery struct {
	m        krpc.Msg
	src      *net.UDPAddr
	tokenOK  bool
	needsArg bool
}

// Query groups: the argument fields a method never reads are left at fixed values so that the
// exploration forks only on what the handler of that method depends on.
const (
	verifGroupPlain    = iota // ping and every unknown method name
	verifGroupLookup          // find_node, get_peers, get
	verifGroupAnnounce        // announce_peer
	verifGroupPut             // put
)

// verifInboundQuery builds an arbitrary query message of one group from the given source.
// tidLens lists the transaction-id lengths to cover.
func verifInboundQuery(v *verifSrv, group int, tidLens []int, src *net.UDPAddr) verifQuery {
	var q verifQuery
	q.src = src
	q.m.Y = "q"
	q.m.T = verifSymString(tidLens[verifChoice(0, len(tidLens)-1)])
	var a *krpc.MsgArgs
	if verifNondetBool() {
		a = &krpc.MsgArgs{ID: verifPeerID(v.id, []int{0}, false)}
		q.m.A = a
	}
	token := func() {
		// the token this node would issue to this source now, or an arbitrary 20-byte string
		if verifNondetBool() {
			a.Token = v.s.createToken(NewAddr(src))
			q.tokenOK = true
		} else {
			a.Token = verifSymString(20)
			q.tokenOK = v.s.validToken(a.Token, NewAddr(src))
		}
	}
	switch group {
	case verifGroupPlain:
		q.m.Q = verifMethodPlain()
	case verifGroupLookup:
		q.m.Q = []string{"find_node", "get_peers", "get"}[verifChoice(0, 2)]
		if a != nil {
			if v.lean {
				a.InfoHash = verifPeerID(v.id, []int{0}, true)
				a.Target = a.InfoHash
				a.Want = [][]krpc.Want{nil, {krpc.WantNodes, krpc.WantNodes6}}[verifChoice(0, 1)]
			} else {
				a.InfoHash = verifPeerID(v.id, []int{0, 9}, true)
				a.Target = verifPeerID(v.id, []int{0}, false)
				a.Want = verifWant()
			}
			if q.m.Q == "get" && verifNondetBool() {
				sq := verifNondetI64()
				a.Seq = &sq
			}
		}
	case verifGroupAnnounce:
		q.m.Q = "announce_peer"
		if a != nil {
			verifFill(a.InfoHash[:])
			a.ImpliedPort = verifNondetBool()
			if verifNondetBool() {
				p := int(verifNondetU16())
				a.Port = &p
			}
			token()
		}
	case verifGroupPut:
		q.m.Q = "put"
		if a != nil {
			a.V = verifSymString(2)
			a.Cas = verifNondetI64()
			// mutable (arbitrary key, signature, salt of length 0 or 65) or immutable item
			if verifNondetBool() {
				verifFill(a.K[:])
				verifFill(a.Sig[:])
				a.Salt = make([]byte, verifChoice(0, 1)*65)
				verifFill(a.Salt)
			}
			if verifNondetBool() {
				sq := verifNondetI64()
				a.Seq = &sq
			}
			token()
		}
	}
	return q
}

// verifMethodPlain: "ping", a name no handler knows, or an arbitrary string of 0, 3, 4 or 9 bytes
// constrained to differ from the names that need arguments.
func verifMethodPlain() string {
	var m string
	switch verifChoice(0, 5) {
	case 0:
		return "ping"
	case 1:
		return "sample_infohashes"
	case 2:
		return ""
	case 3:
		m = verifSymString(3)
	case 4:
		m = verifSymString(4)
	case 5:
		m = verifSymString(9)
	}
	verifAssume(m != "put" && m != "get" && m != "find_node" && m != "get_peers")
	return m
}

func verifC08Check(v *verifSrv, q verifQuery, expectReply bool) {
	m := q.m
	sent := v.sock.sent
	verifAssert(len(sent) <= 1, "C08: at most one datagram is sent in reaction to one inbound datagram")
	for _, w := range sent {
		verifAssert(verifSameUDP(w.addr, q.src), "C08: the datagram goes to the query's source address")
		verifAssert(w.ok, "C08: what is sent is an encoded KRPC message")
		verifAssert(w.msg.T == m.T, "C08: the transaction id is echoed byte for byte")
		verifAssert(w.msg.Y == "r" || w.msg.Y == "e", "C08: only responses and errors are sent in reaction to a query")
		if w.msg.Y == "r" {
			verifAssert(w.msg.R != nil && w.msg.R.ID == v.id, "C08: a response carries the node's own id")
			verifAssert(w.msg.IP.Port == q.src.Port && verifBytesEq(w.msg.IP.IP, q.src.IP), "C08: a response carries the requester's address in ip")
		} else {
			verifAssert(w.msg.E != nil, "C08: an error message carries an error value")
		}
	}
	if !expectReply {
		verifAssert(len(sent) == 0, "C08: nothing is sent (passive node, vetoing hook, or not a query)")
		return
	}
	budget := verifEventCount("limiter.deny") == 0 && verifEventCount("limiter.waiterr") == 0
	if !budget {
		verifAssert(len(sent) == 0, "C08: without send budget nothing is sent")
		return
	}
	errCode := func() int {
		if len(sent) == 1 && sent[0].msg.Y == "e" && sent[0].msg.E != nil {
			return sent[0].msg.E.Code
		}
		return -1
	}
	isResp := len(sent) == 1 && sent[0].msg.Y == "r"
	switch m.Q {
	case "ping":
		verifAssert(isResp, "C08: ping always gets a response")
		verifReach("ping")
	case "find_node", "get_peers", "get":
		if m.A == nil {
			verifAssert(errCode() == 203, "C08: a method that needs arguments but has none gets error 203")
			verifReach("noargs203")
		} else {
			verifAssert(isResp, "C08: find_node/get_peers/get with arguments get a response")
			verifReach("lookup")
		}
	case "announce_peer":
		if m.A == nil {
			verifAssert(errCode() == 203, "C08: announce_peer without arguments gets error 203")
		} else if q.tokenOK {
			verifAssert(isResp, "C08: a correctly tokened announce_peer gets a response")
			verifReach("announce")
		} else {
			verifAssert(len(sent) == 0, "C08: a badly tokened announce_peer gets no datagram")
		}
	case "put":
		if m.A == nil {
			verifAssert(errCode() == 203, "C08: put without arguments gets error 203")
		} else if q.tokenOK {
			verifAssert(len(sent) == 1, "C08: a correctly tokened put gets exactly one datagram")
			verifReach("put")
		} else {
			verifAssert(len(sent) == 0, "C08: a badly tokened put gets no datagram")
		}
	default:
		verifAssert(errCode() == 204, "C08: an unknown method gets error 204")
		verifReach("unknown204")
	}
}

func verifC08Dispatch(group int, tidLens []int, withStore bool, src *net.UDPAddr) {
	o := verifSrvOpt{noSecurity: true}
	if withStore {
		o.peerStore = &peer_store.InMemory{}
	}
	v := verifStartServer(o)
	verifFixTokenClock(v.s)
	q := verifInboundQuery(v, group, tidLens, src)
	v.sock.deliver(verifEncode(q.m, 60), q.src)
	verifC08Check(v, q, true)
	verifReach("end")
}

func VerifC08_Plain()    { verifC08Dispatch(verifGroupPlain, []int{0, 2}, false, verifUDPAddr()) }
func VerifC08_Lookup()   { verifC08Dispatch(verifGroupLookup, []int{1}, verifNondetBool(), verifUDPAddr()) }
func VerifC08_LookupQuick() {
	verifC08Dispatch(verifGroupLookup, []int{1}, false, verifUDPAddr4())
}
func VerifC08_Announce() { verifC08Dispatch(verifGroupAnnounce, []int{1}, verifNondetBool(), verifUDPAddr()) }
func VerifC08_Put()      { verifC08Dispatch(verifGroupPut, []int{1}, false, verifUDPAddr4()) }
func VerifC08_PlainTID() { verifC08Dispatch(verifGroupPlain, []int{0, 1, 2, 3, 4, 8}, false, verifUDPAddr4()) }

// Passive nodes and vetoing hooks send nothing at all.
func VerifC08_PassiveOrVeto() {
	o := verifSrvOpt{noSecurity: true}
	hookCalls := 0
	switch verifChoice(0, 2) {
	case 0:
		o.passive = true
	case 1:
		o.onQuery = func(query *krpc.Msg, source net.Addr) bool { hookCalls++; return false }
	case 2:
		// passive, with a hook that lets every query through: passive still wins
		o.passive = true
		o.onQuery = func(query *krpc.Msg, source net.Addr) bool { hookCalls++; return true }
	}
	v := verifStartServer(o)
	verifFixTokenClock(v.s)
	q := verifInboundQuery(v, verifChoice(0, 3), []int{1}, verifUDPAddr4())
	v.sock.deliver(verifEncode(q.m, 60), q.src)
	verifC08Check(v, q, false)
	if !o.passive {
		verifAssert(hookCalls == 1, "C08: the query hook sees the query exactly once")
	}
	verifReach("end")
}

// A hook that lets the query through changes nothing.
func VerifC08_HookAllows() {
	o := verifSrvOpt{noSecurity: true}
	o.onQuery = func(query *krpc.Msg, source net.Addr) bool { return true }
	v := verifStartServer(o)
	verifFixTokenClock(v.s)
	q := verifInboundQuery(v, verifChoice(0, 3), []int{1}, verifUDPAddr4())
	v.sock.deliver(verifEncode(q.m, 60), q.src)
	verifC08Check(v, q, true)
	verifReach("end")
}

// Responses, errors and messages of unknown type that match no pending transaction: nothing is sent.
func VerifC08_NonQuery() {
	v := verifStartServer(verifSrvOpt{noSecurity: true})
	src := verifUDPAddr()
	var m krpc.Msg
	switch verifChoice(0, 3) {
	case 0:
		m.Y = "r"
	case 1:
		m.Y = "e"
	case 2:
		m.Y = verifSymString(1)
		verifAssume(m.Y != "q")
	case 3:
		m.Y = ""
	}
	m.Q = []string{"", "ping", "find_node"}[verifChoice(0, 2)]
	m.T = verifSymString(verifChoice(0, 2))
	if verifNondetBool() {
		m.R = &krpc.Return{ID: verifPeerID(v.id, []int{0}, true)}
	}
	if verifNondetBool() {
		m.E = &krpc.Error{Code: int(verifNondetI64()), Msg: "x"}
	}
	if verifNondetBool() {
		m.A = &krpc.MsgArgs{ID: verifPeerID(v.id, []int{0}, true)}
	}
	v.sock.deliver(verifEncode(m, 60), src)
	verifAssert(len(v.sock.sent) == 0 && v.sock.attempts == 0, "C08: nothing is sent in reaction to a response, an error or a message of unknown type")
	verifAssert(v.s.NumNodes() == 0, "C06: an unsolicited response adds no routing-table entry")
	verifReach("end")
}

// Must-fail twin: the claim "a ping is never answered" has to be refuted.
func VerifC08_MustFail() {
	v := verifStartServer(verifSrvOpt{noSecurity: true})
	src := verifUDPAddr4()
	m := krpc.Msg{Q: "ping", Y: "q", T: "aa", A: &krpc.MsgArgs{ID: verifPeerID(v.id, []int{0}, false)}}
	v.sock.deliver(verifEncode(m, 60), src)
	verifAssert(len(v.sock.sent) == 0, "twin: a ping is never answered (must fail)")
}


// Two queries from two sources handed to the socket back to back (their reply goroutines overlap):
// each source gets exactly one datagram, its own.
func VerifC08_TwoSources() {
	verifLimiterAlwaysGrants()
	v := verifStartServer(verifSrvOpt{noSecurity: true})
	verifFixTokenClock(v.s)
	v.lean = true
	s1 := &net.UDPAddr{IP: net.IP{192, 0, 2, 1}, Port: 1001}
	s2 := &net.UDPAddr{IP: net.IP{192, 0, 2, 2}, Port: 1002}
	q1 := verifInboundQuery(v, verifGroupPlain, []int{2}, s1)
	q2 := verifInboundQuery(v, verifGroupLookup, []int{2}, s2)
	v.sock.in <- verifDatagram{b: verifEncode(q1.m, 60), n: -1, addr: s1}
	v.sock.in <- verifDatagram{b: verifEncode(q2.m, 60), n: -1, addr: s2}
	verifQuiesce()
	n1, n2 := 0, 0
	for _, w := range v.sock.sent {
		switch {
		case verifSameUDP(w.addr, s1):
			n1++
			verifAssert(w.msg.T == q1.m.T, "C08: the first asker gets its own transaction id back")
		case verifSameUDP(w.addr, s2):
			n2++
			verifAssert(w.msg.T == q2.m.T, "C08: the second asker gets its own transaction id back")
		default:
			verifFail("C08: a datagram goes to somebody who did not ask")
		}
	}
	verifAssert(n1 == 1 && n2 == 1, "C08: each of two overlapping queries gets exactly one datagram")
	verifReach("end")
}
