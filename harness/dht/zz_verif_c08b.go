package dht

import (
	"context"
	"net"

	"github.com/anacrolix/dht/v2/krpc"
)

// C08 with an outbound transaction in flight: the node has a query outstanding to X; X (two nodes of
// this library querying each other at the same moment - transaction IDs are small counters) sends a
// query of its own that happens to carry the same transaction ID, or another one. It is a query: it
// is answered with exactly one response echoing its ID, it does not complete the node's own
// transaction, and X's real response afterwards does.
func VerifC08_QueryCollidesWithOutstanding() {
	verifLimiterAlwaysGrants()
	v := verifStartServer(verifSrvOpt{noSecurity: true, concreteID: true})
	x := &net.UDPAddr{IP: net.IP{10, 0, 0, 1}, Port: 6881}
	xid := verifConcreteIDInBucket(v.id, 3, 1)
	p := verifStartQuery(v, context.Background(), x, []string{"ping", "find_node"}[verifChoice(0, 1)], QueryInput{})
	if !p.sent {
		return
	}
	t := p.tid
	if verifNondetBool() {
		t = "zz"
	}
	method := []string{"ping", "find_node", "get_peers"}[verifChoice(0, 2)]
	a := &krpc.MsgArgs{ID: xid}
	a.Target = verifConcreteIDInBucket(v.id, 2, 4)
	a.InfoHash = a.Target
	before := len(v.sock.sent)
	v.sock.deliver(verifEncode(krpc.Msg{Q: method, Y: "q", T: t, A: a}, 60), x)
	n := 0
	for _, w := range v.sock.sent[before:] {
		if w.msg.Y == "q" {
			continue // the node's own traffic (e.g. a ping back to the newcomer)
		}
		n++
		verifAssert(verifSameUDP(w.addr, x) && w.msg.Y == "r" && w.msg.T == t && w.msg.R != nil && w.msg.R.ID == v.id,
			"C08: the response goes to the querier, echoes its transaction ID and carries this node's ID")
	}
	verifAssert(n == 1, "C08: a query is answered with exactly one datagram even while this node has a transaction with the same ID outstanding to the sender")
	verifAssert(!p.done && p.outstanding() == 1, "C07: an inbound query does not complete the outstanding transaction")
	genuine := verifReplyMsg(v, p.tid)
	v.sock.deliver(verifEncode(genuine, 50), x)
	verifAssert(p.done && p.res.Err == nil && p.res.Reply.Y == "r", "C07: the real response completes it")
	verifReach("end")
}
