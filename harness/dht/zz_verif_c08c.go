package dht

import (
	"net"

	"github.com/anacrolix/dht/v2/krpc"
)

// C08 "always get one when send budget allows", under a limiter whose every acquisition has an
// arbitrary outcome: a well-formed ping / find_node / get_peers is answered exactly when the limiter
// had a token for it, and a reply costs one token: when the first acquisition made for the reply is
// granted the response is written (one datagram, one token), and when it is refused nothing is.
// WaitToReply on or off.
func VerifC08_OneTokenOneReply() {
	wait := verifNondetBool()
	v := verifStartServer(verifSrvOpt{noSecurity: true, concreteID: true, waitToReply: wait})
	src := &net.UDPAddr{IP: net.IP{192, 0, 2, 9}, Port: 4001}
	method := []string{"ping", "find_node", "get_peers"}[verifChoice(0, 2)]
	a := &krpc.MsgArgs{ID: verifConcreteIDInBucket(v.id, 3, 1)}
	a.Target = verifConcreteIDInBucket(v.id, 2, 4)
	a.InfoHash = a.Target
	v.sock.deliver(verifEncode(krpc.Msg{Q: method, Y: "q", T: "ot", A: a}, 60), src)
	replies := 0
	for _, w := range v.sock.sent {
		if verifSameUDP(w.addr, src) && w.msg.Y != "q" {
			replies++
			verifAssert(w.msg.Y == "r" && w.msg.T == "ot", "C08: the reply is a response echoing the transaction ID")
		}
	}
	grants := verifEventCount("limiter.grant")
	refused := verifEventCount("limiter.deny") + verifEventCount("limiter.waiterr")
	verifAssert(replies <= 1, "C08: never more than one datagram per query")
	if refused == 0 {
		verifAssert(replies == 1 && grants == 1, "C08: a query whose reply finds send budget is answered, and the reply costs exactly one token")
		verifReach("answered")
	} else if replies == 0 {
		verifAssert(grants == 0, "C08: a reply is dropped only when the limiter refused it - a token that was granted for it is not thrown away")
		verifReach("dropped")
	}
	verifReach("end")
}

// Keys a datagram leaves out altogether: nothing carries over from the datagram handled before it. After
// a first datagram (a ping, or an unsolicited response) a second one arrives, from the same or another
// source, that is a well-formed ping except that it has no "y" key - not a query: nothing is sent - or
// no "t" key - answered, if at all, with an empty transaction ID, never with the previous datagram's.
func VerifC08_MissingKeys() {
	verifLimiterAlwaysGrants()
	v := verifStartServer(verifSrvOpt{noSecurity: true})
	s1 := &net.UDPAddr{IP: net.IP{192, 0, 2, 1}, Port: 1001}
	s2 := s1
	if verifNondetBool() {
		s2 = &net.UDPAddr{IP: net.IP{192, 0, 2, 2}, Port: 1002}
	}
	first := krpc.Msg{Q: "ping", Y: "q", T: "aa", A: &krpc.MsgArgs{ID: verifPeerID(v.id, []int{0}, false)}}
	if verifNondetBool() {
		first = krpc.Msg{Y: "r", T: "bb", R: &krpc.Return{ID: verifPeerID(v.id, []int{0}, false)}}
	}
	v.sock.deliver(verifEncode(first, 60), s1)
	before, attempts := len(v.sock.sent), v.sock.attempts
	second := krpc.Msg{Q: "ping", Y: "q", T: "zz", A: &krpc.MsgArgs{ID: verifPeerID(v.id, []int{1}, false)}}
	if verifNondetBool() {
		v.sock.deliver(verifEncodeWithout(second, 60, "y"), s2)
		verifAssert(len(v.sock.sent) == before && v.sock.attempts == attempts, "C08: nothing is sent in reaction to a datagram without a message type, whatever was handled before it")
		verifReach("no-y")
	} else {
		v.sock.deliver(verifEncodeWithout(second, 60, "t"), s2)
		n := 0
		for _, w := range v.sock.sent[before:] {
			n++
			verifAssert(verifSameUDP(w.addr, s2), "C08: the reply goes to the asker")
			verifAssert(w.msg.T == "", "C08: a query without a transaction ID is answered with an empty one, not with an earlier datagram's")
		}
		verifAssert(n <= 1, "C08: at most one datagram answers a query")
		verifReach("no-t")
	}
	verifReach("end")
}
