package dht

import (
	"net"
	"time"

	"github.com/anacrolix/dht/v2/krpc"
)

// C09: the node lists in find_node / get_peers / get replies. The routing table is populated through
// Server.updateNode (the function through which queries, responses and AddNode reach the table),
// with the per-entry liveness evidence set the way the handlers set it; then one query goes through
// the real serve loop and the reply is compared with an independently computed expectation.

const (
	verifGood         = iota // answered one of our queries just now
	verifQueriedOnly         // has only ever queried us (never answered): not good
	verifFailedPing          // answered once, then failed the questionable-node ping: bad
	verifStale               // answered 16 minutes ago, silent since: questionable
	verifStaleQueried        // answered 16 minutes ago and queried us now: good
)

type verifContact struct {
	id     krpc.ID
	addr   *net.UDPAddr
	state  int
	bucket int
}

func (c verifContact) good() bool { return c.state == verifGood || c.state == verifStaleQueried }
func (c verifContact) v4() bool   { return len(c.addr.IP) == 4 || verifIsMapped(c.addr.IP) }

func verifAddContact(v *verifSrv, c verifContact) {
	now := time.Now()
	v.s.mu.Lock()
	defer v.s.mu.Unlock()
	err := v.s.updateNode(NewAddr(c.addr), &c.id, true, func(n *node) {
		switch c.state {
		case verifGood:
			n.lastGotResponse = now
		case verifQueriedOnly:
			n.lastGotQuery = now
		case verifFailedPing:
			n.lastGotResponse = now
			n.failedLastQuestionablePing = true
		case verifStale:
			n.lastGotResponse = now.Add(-16 * time.Minute)
		case verifStaleQueried:
			n.lastGotResponse = now.Add(-16 * time.Minute)
			n.lastGotQuery = now
		}
	})
	if c.state == verifFailedPing {
		// a contact cannot enter the table already marked failed: add it good, then mark it
		if err != nil {
			v.s.updateNode(NewAddr(c.addr), &c.id, true, func(n *node) { n.lastGotResponse = now })
			v.s.updateNode(NewAddr(c.addr), &c.id, false, func(n *node) { n.failedLastQuestionablePing = true })
		}
	}
}

func verifContactAddr(i int, v6 bool) *net.UDPAddr {
	if v6 {
		ip := verifIP16()
		verifAssume(ip[0] == 0x20) // a global unicast IPv6 address (not v4-mapped)
		return &net.UDPAddr{IP: ip, Port: 2000 + i}
	}
	ip := verifIP4()
	return &net.UDPAddr{IP: ip, Port: 2000 + i}
}

func verifInList(list []krpc.NodeInfo, c verifContact) bool {
	for _, ni := range list {
		if ni.ID == c.id && ni.Addr.Port == c.addr.Port && verifSameIP16(ni.Addr.IP, c.addr.IP) {
			return true
		}
	}
	return false
}

// verifC09Check: the reply's node lists against the expectation for (contacts, target bucket, wants).
func verifC09Check(v *verifSrv, reply *krpc.Msg, contacts []verifContact, targetBucket int, w4, w6 bool) {
	verifAssert(reply.Y == "r" && reply.R != nil, "C09: the query is answered with a response")
	r := reply.R
	if !w4 {
		verifAssert(len(r.Nodes) == 0, "C09: nodes is sent only to requesters that want IPv4")
	}
	if !w6 {
		verifAssert(len(r.Nodes6) == 0, "C09: nodes6 is sent only to requesters that want IPv6")
	}
	verifAssert(len(r.Nodes) <= 8 && len(r.Nodes6) <= 8, "C09: at most K=8 contacts per list")
	for _, ni := range r.Nodes {
		verifAssert(ni.ID != v.id, "C09: never the responder itself")
		verifAssert(len(ni.Addr.IP) == 4 || verifIsMapped(ni.Addr.IP), "C09: nodes holds only IPv4 contacts")
		known := false
		for _, c := range contacts {
			if ni.ID == c.id && ni.Addr.Port == c.addr.Port && verifSameIP16(ni.Addr.IP, c.addr.IP) {
				known = true
				verifAssert(c.good(), "C09: every listed contact has answered this node and is currently good")
				verifAssert(c.bucket <= targetBucket, "C09: contacts come from the target's bucket and farther ones")
			}
		}
		verifAssert(known, "C09: every listed contact is a routing-table entry")
	}
	for _, ni := range r.Nodes6 {
		verifAssert(ni.ID != v.id, "C09: never the responder itself")
		verifAssert(len(ni.Addr.IP) == 16 && !verifIsMapped(ni.Addr.IP), "C09: nodes6 holds only IPv6 contacts")
		known := false
		for _, c := range contacts {
			if ni.ID == c.id && ni.Addr.Port == c.addr.Port && verifSameIP16(ni.Addr.IP, c.addr.IP) {
				known = true
				verifAssert(c.good(), "C09: every listed contact has answered this node and is currently good")
				verifAssert(c.bucket <= targetBucket, "C09: contacts come from the target's bucket and farther ones")
			}
		}
		verifAssert(known, "C09: every listed contact is a routing-table entry")
	}
	// completeness: with fewer than K eligible contacts, every good contact of the right family in the
	// target's bucket or a farther one is listed (fewer than K only when those buckets are exhausted)
	for _, c := range contacts {
		if !c.good() || c.bucket > targetBucket {
			continue
		}
		if c.v4() && w4 {
			verifAssert(verifInList(r.Nodes, c), "C09: a good IPv4 contact at or beyond the target's bucket is not omitted while the list is short of K")
			verifReach("listed4")
		}
		if !c.v4() && w6 {
			verifAssert(verifInList(r.Nodes6, c), "C09: a good IPv6 contact at or beyond the target's bucket is not omitted while the list is short of K")
			verifReach("listed6")
		}
	}
}

func verifLookupQuery(v *verifSrv, method string, named krpc.ID, decoy krpc.ID, want []krpc.Want, from *net.UDPAddr) *krpc.Msg {
	a := &krpc.MsgArgs{ID: verifIDInBucket(v.id, 2), Want: want}
	// the field the method names carries the target; the other field carries a decoy in another bucket
	if method == "get_peers" {
		a.InfoHash, a.Target = named, decoy
	} else {
		a.Target, a.InfoHash = named, decoy
	}
	before := len(v.sock.sent)
	v.sock.deliver(verifEncode(krpc.Msg{Q: method, Y: "q", T: "ln", A: a}, 60), from)
	for _, w := range v.sock.sent[before:] {
		if w.msg.T == "ln" {
			m := w.msg
			return &m
		}
	}
	return nil
}

// Two contacts of arbitrary liveness class and family in the target's bucket and a farther bucket,
// every want list, IPv4 or IPv6 requester, all three methods.
func verifC09(method string, requester *net.UDPAddr, symbolicIDs bool) {
	verifLimiterAlwaysGrants()
	v := verifStartServer(verifSrvOpt{noSecurity: true, concreteID: !symbolicIDs})
	verifFreezeClock(true)
	const tb = 5 // the target's bucket
	var contacts []verifContact
	if symbolicIDs {
		contacts = []verifContact{
			{state: verifChoice(0, 4), bucket: tb},
			{state: verifChoice(0, 4), bucket: 3},
			{state: verifGood, bucket: 7}, // nearer to this node than the target: must not be listed
		}
	} else {
		contacts = []verifContact{
			{state: []int{verifGood, verifQueriedOnly, verifFailedPing}[verifChoice(0, 2)], bucket: tb},
			{state: []int{verifGood, verifStale, verifStaleQueried}[verifChoice(0, 2)], bucket: 3},
			{state: verifGood, bucket: 7},
		}
	}
	for i := range contacts {
		if symbolicIDs {
			contacts[i].id = verifIDInBucket(v.id, contacts[i].bucket)
		} else {
			contacts[i].id = verifConcreteIDInBucket(v.id, contacts[i].bucket, byte(i+1))
		}
		if symbolicIDs {
			contacts[i].addr = verifContactAddr(i, verifNondetBool())
		} else if f := verifC09AddrForm(i); f == 0 {
			contacts[i].addr = &net.UDPAddr{IP: net.IP{198, 51, 100, byte(10 + i)}, Port: 2000 + i}
		} else if f == 1 {
			// an IPv4 contact held in the 16-byte form (what a dual-stack socket, net.IPv4 and
			// net.ParseIP report)
			contacts[i].addr = &net.UDPAddr{IP: net.IPv4(198, 51, 100, byte(10+i)), Port: 2000 + i}
		} else {
			ip := net.ParseIP("2001:db8::100")
			ip[15] = byte(i)
			contacts[i].addr = &net.UDPAddr{IP: ip, Port: 2000 + i}
		}
		verifAddContact(v, contacts[i])
	}
	verifAssert(v.s.NumNodes() == len(contacts), "C09 harness: the contacts are in the table")
	want := verifWant()
	target := verifIDInBucket(v.id, tb)
	decoy := verifIDInBucket(v.id, 0)
	reply := verifLookupQuery(v, method, target, decoy, want, requester)
	if reply == nil {
		verifFail("C09: no reply although the limiter grants")
		return
	}
	w4, w6 := verifWants(want, requester.IP)
	// the requester itself entered the table by querying (bucket 2, never answered: not good)
	verifC09Check(v, reply, contacts, tb, w4, w6)
	verifReach("end")
}

// The address form of contact i: the two contacts that may be listed take every form; the third one
// (nearer to this node than the target, never listed) is a plain IPv4 contact.
func verifC09AddrForm(i int) int {
	if i >= 2 {
		return 0
	}
	return verifChoice(0, 2)
}

var verifReq4 = &net.UDPAddr{IP: net.IP{192, 0, 2, 7}, Port: 999}

func VerifC09_GetPeers() { verifC09("get_peers", verifReq4, false) }
func VerifC09_FindNode() { verifC09("find_node", verifReq4, false) }
func VerifC09_Get()      { verifC09("get", verifReq4, false) }
func VerifC09_GetPeersV6Requester() {
	verifC09("get_peers", &net.UDPAddr{IP: net.ParseIP("2001:db8::7"), Port: 999}, false)
}
func VerifC09_GetPeersSymbolicIDs() { verifC09("get_peers", verifReq4, true) }
func VerifC09_FindNodeSymbolicIDs() { verifC09("find_node", verifReq4, true) }

// Truncation to K: eight good IPv6 contacts in the target's bucket and two good IPv4 contacts in a
// farther bucket; a requester wanting IPv4 gets the two IPv4 contacts.
func VerifC09_FamilyBeforeTruncation() {
	verifLimiterAlwaysGrants()
	v := verifStartServer(verifSrvOpt{noSecurity: true, concreteID: true})
	verifFreezeClock(true)
	const tb = 5
	var contacts []verifContact
	for i := 0; i < 8; i++ {
		ip := net.ParseIP("2001:db8::100")
		ip[15] = byte(i)
		contacts = append(contacts, verifContact{state: verifGood, bucket: tb, addr: &net.UDPAddr{IP: ip, Port: 3000 + i}})
	}
	for i := 0; i < 2; i++ {
		contacts = append(contacts, verifContact{state: verifGood, bucket: 3, addr: &net.UDPAddr{IP: net.IP{198, 51, 100, byte(i)}, Port: 4000 + i}})
	}
	for i := range contacts {
		contacts[i].id = verifConcreteIDInBucket(v.id, contacts[i].bucket, byte(i+1))
		verifAddContact(v, contacts[i])
	}
	target := verifIDInBucket(v.id, tb)
	reply := verifLookupQuery(v, "get_peers", target, verifIDInBucket(v.id, 0), []krpc.Want{krpc.WantNodes}, &net.UDPAddr{IP: net.IP{192, 0, 2, 7}, Port: 999})
	if reply == nil || reply.R == nil {
		verifFail("C09: no reply")
		return
	}
	verifAssert(len(reply.R.Nodes) == 2, "C09: nodes holds fewer than K only when the buckets at or beyond the target's have no further good contact of that family")
	verifAssert(len(reply.R.Nodes6) == 0, "C09: no nodes6 for a requester wanting n4")
	verifReach("end")
}

func VerifC09_MustFail() {
	verifLimiterAlwaysGrants()
	v := verifStartServer(verifSrvOpt{noSecurity: true})
	verifFreezeClock(true)
	c := verifContact{state: verifGood, bucket: 5, id: verifIDInBucket(v.id, 5), addr: &net.UDPAddr{IP: net.IP{198, 51, 100, 1}, Port: 4000}}
	verifAddContact(v, c)
	reply := verifLookupQuery(v, "get_peers", verifIDInBucket(v.id, 5), verifIDInBucket(v.id, 0), nil, &net.UDPAddr{IP: net.IP{192, 0, 2, 7}, Port: 999})
	verifAssert(reply == nil || len(reply.R.Nodes) == 0, "twin: good contacts are never propagated (must fail)")
}
