package dht

import (
	"context"
	"net"

	"github.com/anacrolix/dht/v2/krpc"
)

// C09 with the liveness evidence produced by real traffic (not set by the harness): contact A answers
// one of this node's own queries, contact B only ever queries this node, contact C answers a query and
// then sends a message flagged read-only; all in the target's bucket. A lookup query for that bucket
// is then answered with A (and C, which did answer), never with B, never with the requester.
func VerifC09_RealTraffic() {
	verifLimiterAlwaysGrants()
	v := verifStartServer(verifSrvOpt{noSecurity: true, concreteID: true})
	verifFreezeClock(true)
	const tb = 5
	mk := func(i int) verifContact {
		return verifContact{bucket: tb, id: verifConcreteIDInBucket(v.id, tb, byte(i+1)),
			addr: &net.UDPAddr{IP: net.IP{198, 51, 100, byte(10 + i)}, Port: 2000 + i}}
	}
	a, b, c := mk(0), mk(1), mk(2)
	answer := func(x verifContact, q string) {
		p := verifStartQuery(v, context.Background(), x.addr, q, QueryInput{})
		if !p.sent {
			verifFail("C09 harness: the query is sent (the limiter grants)")
			return
		}
		v.sock.deliver(verifEncode(krpc.Msg{Y: "r", T: p.tid, R: &krpc.Return{ID: x.id}}, 50), x.addr)
		verifAssert(p.done && p.res.Err == nil, "C07: the reply completes the query")
	}
	answer(a, []string{"ping", "find_node"}[verifChoice(0, 1)])
	v.sock.deliver(verifEncode(krpc.Msg{Q: "ping", Y: "q", T: "bq", A: &krpc.MsgArgs{ID: b.id}}, 50), b.addr)
	withC := verifNondetBool()
	if withC {
		answer(c, "ping")
		v.sock.deliver(verifEncode(krpc.Msg{Q: "ping", Y: "q", T: "cq", ReadOnly: true, A: &krpc.MsgArgs{ID: c.id}}, 50), c.addr)
	}
	method := []string{"find_node", "get_peers", "get"}[verifChoice(0, 2)]
	requester := &net.UDPAddr{IP: net.IP{192, 0, 2, 7}, Port: 999}
	reply := verifLookupQuery(v, method, verifIDInBucket(v.id, tb), verifIDInBucket(v.id, 0), nil, requester)
	if reply == nil || reply.R == nil {
		verifFail("C09: the lookup query is answered")
		return
	}
	has := func(x verifContact) bool {
		for _, ni := range reply.R.Nodes {
			if ni.ID == x.id && ni.Addr.Port == x.addr.Port {
				return true
			}
		}
		return false
	}
	verifAssert(has(a), "C09: a contact that answered one of this node's queries is propagated")
	verifAssert(!has(b), "C09: a contact that has only ever queried this node is not propagated")
	if withC {
		verifAssert(has(c), "C09: a contact that answered stays good when it later sends a read-only query")
	}
	want := 1
	if withC {
		want = 2
	}
	verifAssert(len(reply.R.Nodes) == want && len(reply.R.Nodes6) == 0, "C09: nothing else is listed (not the requester, not the responder itself)")
	verifReach("end")
}
