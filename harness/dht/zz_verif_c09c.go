package dht

import (
	"context"
	"net"

	"github.com/anacrolix/dht/v2/krpc"
)

// C09, "has answered one of the responder's own queries" against responses that answer nothing:
// contact A genuinely answers a query; D sends a response-shaped datagram although it was never
// queried; E is queried, the query times out, and E's response arrives afterwards. A lookup query for
// their bucket lists A only.
func VerifC09_UnsolicitedResponses() {
	verifLimiterAlwaysGrants()
	v := verifStartServer(verifSrvOpt{noSecurity: true, concreteID: true})
	verifFreezeClock(true)
	const tb = 5
	mk := func(i int) verifContact {
		return verifContact{bucket: tb, id: verifConcreteIDInBucket(v.id, tb, byte(i+1)),
			addr: &net.UDPAddr{IP: net.IP{198, 51, 100, byte(10 + i)}, Port: 2000 + i}}
	}
	a, d, e := mk(0), mk(1), mk(2)
	pa := verifStartQuery(v, context.Background(), a.addr, "ping", QueryInput{})
	if !pa.sent {
		return
	}
	v.sock.deliver(verifEncode(krpc.Msg{Y: "r", T: pa.tid, R: &krpc.Return{ID: a.id}}, 50), a.addr)
	// D: never queried
	v.sock.deliver(verifEncode(krpc.Msg{Y: "r", T: verifSymString(verifChoice(1, 2)), R: &krpc.Return{ID: d.id}}, 50), d.addr)
	// E: queried, timed out, answers late
	withE := verifNondetBool()
	if withE {
		pe := verifStartQuery(v, context.Background(), e.addr, "ping", QueryInput{NumTries: 1})
		for i := 0; i < 3 && !pe.done; i++ {
			verifFireTimers()
			verifQuiesce()
		}
		verifAssert(pe.done && pe.res.Err != nil, "C14: the unanswered query times out")
		v.sock.deliver(verifEncode(krpc.Msg{Y: "r", T: pe.tid, R: &krpc.Return{ID: e.id}}, 50), e.addr)
	}
	method := []string{"find_node", "get_peers", "get"}[verifChoice(0, 2)]
	requester := &net.UDPAddr{IP: net.IP{192, 0, 2, 7}, Port: 999}
	reply := verifLookupQuery(v, method, verifIDInBucket(v.id, tb), verifIDInBucket(v.id, 0), nil, requester)
	if reply == nil || reply.R == nil {
		verifFail("C09: the lookup query is answered")
		return
	}
	for _, ni := range reply.R.Nodes {
		verifAssert(ni.ID != d.id, "C09: the sender of an unsolicited response has answered none of this node's queries and is not propagated")
		verifAssert(ni.ID != e.id, "C09: nor is the sender of a response that arrived after its query had timed out")
	}
	verifAssert(len(reply.R.Nodes) == 1 && reply.R.Nodes[0].ID == a.id, "C09: the contact that genuinely answered is listed, and nothing else")
	verifReach("end")
}
