package dht

import (
	"net"
)

// C09 for the target that is the responder's own ID (the quantifier names it): eight good contacts in
// the farthest bucket and two good contacts in nearer buckets (5 and 40). A lookup query naming the
// node's own ID is answered nearest buckets first: both nearer contacts are listed, and at most six of
// the farthest bucket - a reply never includes a contact from a farther bucket while omitting a good
// one from a nearer bucket.
func VerifC09_OwnIDTarget() {
	verifLimiterAlwaysGrants()
	v := verifStartServer(verifSrvOpt{noSecurity: true, concreteID: true})
	verifFreezeClock(true)
	var contacts []verifContact
	for i := 0; i < 8; i++ {
		contacts = append(contacts, verifContact{state: verifGood, bucket: 0, addr: &net.UDPAddr{IP: net.IP{198, 51, 100, byte(i)}, Port: 3000 + i}})
	}
	contacts = append(contacts, verifContact{state: verifGood, bucket: 5, addr: &net.UDPAddr{IP: net.IP{198, 51, 101, 1}, Port: 4001}})
	contacts = append(contacts, verifContact{state: verifGood, bucket: 40, addr: &net.UDPAddr{IP: net.IP{198, 51, 101, 2}, Port: 4002}})
	for i := range contacts {
		contacts[i].id = verifConcreteIDInBucket(v.id, contacts[i].bucket, byte(i+1))
		verifAddContact(v, contacts[i])
	}
	verifAssert(v.s.NumNodes() == len(contacts), "C09 harness: the contacts are in the table")
	method := []string{"find_node", "get_peers", "get"}[verifChoice(0, 2)]
	reply := verifLookupQuery(v, method, v.id, verifIDInBucket(v.id, 0), nil, &net.UDPAddr{IP: net.IP{192, 0, 2, 7}, Port: 999})
	if reply == nil || reply.R == nil {
		verifFail("C09: the lookup query is answered")
		return
	}
	verifAssert(len(reply.R.Nodes) == 8, "C09: K contacts are listed when the table holds more than K good ones")
	near := 0
	for _, ni := range reply.R.Nodes {
		verifAssert(ni.ID != v.id, "C09: never the responder itself")
		for _, c := range contacts[8:] {
			if ni.ID == c.id {
				near++
			}
		}
	}
	verifAssert(near == 2, "C09: for the node's own ID as target the nearest buckets come first: no contact of a farther bucket is listed while a good one of a nearer bucket is omitted")
	verifReach("end")
}
