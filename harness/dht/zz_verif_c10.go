package dht

import (
	"net"
	"time"
)

// C10 (token unit): tokens.go with the parameters NewServer configures (5-minute rotation, two
// older intervals honoured, 20-byte secret).

type verifClock struct{ t time.Time }

func verifTokenServer(clk *verifClock) *tokenServer {
	secret := make([]byte, 20)
	verifFill(secret)
	return &tokenServer{
		secret:           secret,
		interval:         5 * time.Minute,
		maxIntervalDelta: 2,
		timeNow:          func() time.Time { return clk.t },
	}
}

// verifInstantSec: an arbitrary whole-second instant between 2001 and 2128 (UnixNano cannot wrap).
// The rotation interval is a whole number of seconds, so every grid boundary is representable.
func verifInstantSec() (time.Time, int64) {
	sec := verifNondetI64()
	verifAssume(sec >= 1000000000 && sec <= 5000000000)
	return time.Unix(sec, 0), sec
}

func verifInstant() time.Time {
	t, _ := verifInstantSec()
	return t
}

func verifSameIP16(a, b net.IP) bool {
	a, b = a.To16(), b.To16()
	for i := 0; i < 16; i++ {
		if a[i] != b[i] {
			return false
		}
	}
	return true
}

// A token is honoured for at least 10 minutes from any port of the issuing IP, and never after 15.
func VerifC10_Lifetime() {
	clk := &verifClock{}
	ts := verifTokenServer(clk)
	ip := verifAnyIP()
	t0, s0 := verifInstantSec()
	t1, s1 := verifInstantSec()
	clk.t = t0
	tok := ts.CreateToken(verifAddr(ip, verifPort(), "issuer"))
	clk.t = t1
	age := s1 - s0 // seconds
	verifAssume(s1 >= s0)
	ok := ts.ValidToken(tok, verifAddr(ip, verifPort(), "user"))
	if age <= 600 {
		verifAssert(ok, "C10 token: honoured for at least 10 minutes from any port of the same IP")
		verifReach("fresh")
	}
	if age > 900 {
		verifAssert(!ok, "C10 token: never honoured more than 15 minutes after issue")
		verifReach("expired")
	}
	verifReach("end")
}

// The 4-byte and the v4-mapped form of one IPv4 address are the same IP for token purposes.
func VerifC10_MappedSameIP() {
	clk := &verifClock{}
	ts := verifTokenServer(clk)
	ip4 := verifIP4()
	mapped := make(net.IP, 16)
	mapped[10], mapped[11] = 0xff, 0xff
	copy(mapped[12:], ip4)
	clk.t = verifInstant()
	tok := ts.CreateToken(verifAddr(ip4, verifPort(), "issuer"))
	verifAssert(ts.ValidToken(tok, verifAddr(mapped, verifPort(), "user")), "C10 token: v4-mapped form of the same IPv4 address is accepted")
	verifReach("end")
}

// A token issued to another IP, or by another server (another secret), is never honoured.
func VerifC10_OtherIPOrServer() {
	clk := &verifClock{}
	ts := verifTokenServer(clk)
	other := verifTokenServer(clk)
	ipA, ipB := verifAnyIP(), verifAnyIP()
	t0 := verifInstant()
	t1 := verifInstant()
	clk.t = t0
	tokA := ts.CreateToken(verifAddr(ipA, verifPort(), "a"))
	tokOther := other.CreateToken(verifAddr(ipB, verifPort(), "b"))
	clk.t = t1
	if !verifSameIP16(ipA, ipB) {
		verifAssert(!ts.ValidToken(tokA, verifAddr(ipB, verifPort(), "b")), "C10 token: a token issued to another IP is rejected")
		verifReach("otherip")
	}
	differ := false
	for i := range ts.secret {
		if ts.secret[i] != other.secret[i] {
			differ = true
		}
	}
	if differ {
		verifAssert(!ts.ValidToken(tokOther, verifAddr(ipB, verifPort(), "b")), "C10 token: a token of another server is rejected")
		verifReach("otherserver")
	}
	verifReach("end")
}

// Any altered token (mutated byte, truncated, extended, empty) is rejected.
func VerifC10_Altered() {
	clk := &verifClock{}
	ts := verifTokenServer(clk)
	ip := verifAnyIP()
	clk.t = verifInstant()
	addr := verifAddr(ip, verifPort(), "a")
	tok := ts.CreateToken(addr)
	n := verifChoice(0, 22)
	forged := verifSymString(n)
	if forged != tok {
		// forged differs from the valid token of this interval; it must also differ from the tokens of the
		// two previous intervals to be rejected, which injectivity of the hash gives unless it equals them
		clk2 := &verifClock{t: clk.t.Add(-5 * time.Minute)}
		clk3 := &verifClock{t: clk.t.Add(-10 * time.Minute)}
		ts2, ts3 := *ts, *ts
		ts2.timeNow = func() time.Time { return clk2.t }
		ts3.timeNow = func() time.Time { return clk3.t }
		if forged != ts2.CreateToken(addr) && forged != ts3.CreateToken(addr) {
			verifAssert(!ts.ValidToken(forged, addr), "C10 token: a string that is not one of the three live tokens is rejected")
			verifReach("rejected")
		}
	}
	if n != 20 {
		verifAssert(!ts.ValidToken(forged, addr), "C10 token: a token of the wrong length is rejected")
	}
	verifReach("end")
}

func VerifC10_MustFail() {
	clk := &verifClock{}
	ts := verifTokenServer(clk)
	ip := verifIP4()
	t0, s0 := verifInstantSec()
	t1, s1 := verifInstantSec()
	clk.t = t0
	tok := ts.CreateToken(verifAddr(ip, verifPort(), "issuer"))
	clk.t = t1
	verifAssume(s1 >= s0 && s1-s0 <= 900)
	verifAssert(ts.ValidToken(tok, verifAddr(ip, verifPort(), "user")), "twin: honoured for 15 minutes (must fail)")
	verifReach("end")
}

func VerifC10_LifetimeUF() { VerifC10_Lifetime() }
