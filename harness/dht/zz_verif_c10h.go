package dht

import (
	"net"
	"time"

	"github.com/anacrolix/dht/v2/bep44"
	"github.com/anacrolix/dht/v2/krpc"
	peer_store "github.com/anacrolix/dht/v2/peer-store"
)

// C10 (handler half): announce_peer and put take effect only with a token this node issued to the
// same source IP; with any other token nothing is stored, no callback fires and nothing is sent.
// The server is built by the real NewServer (so the secret is whatever NewServer sets up).

type verifRecPeers struct {
	adds []krpc.NodeAddr
	ihs  []peer_store.InfoHash
}

func (r *verifRecPeers) AddPeer(ih peer_store.InfoHash, na krpc.NodeAddr) {
	r.ihs = append(r.ihs, ih)
	r.adds = append(r.adds, na)
}
func (r *verifRecPeers) GetPeers(peer_store.InfoHash) []krpc.NodeAddr { return nil }

type verifRecStore struct {
	puts int
	gets int
	dels int
	m    *bep44.Memory
}

func (r *verifRecStore) Put(i *bep44.Item) error { r.puts++; return r.m.Put(i) }
func (r *verifRecStore) Get(t bep44.Target) (*bep44.Item, error) {
	r.gets++
	return r.m.Get(t)
}
func (r *verifRecStore) Del(t bep44.Target) error { r.dels++; return r.m.Del(t) }

type verifC10Env struct {
	v         *verifSrv
	peers     *verifRecPeers
	store     *verifRecStore
	callbacks int
	clock     *verifClock
	bare      bool // writes carry nothing but the token
}

func verifC10Server() *verifC10Env { return verifC10ServerOpt(verifSrvOpt{noSecurity: true}) }

// verifC10ServerOpt: a server whose peer store, BEP 44 store and announce callback record what happens.
func verifC10ServerOpt(o verifSrvOpt) *verifC10Env {
	env := &verifC10Env{peers: &verifRecPeers{}, store: &verifRecStore{m: bep44.NewMemory()}, clock: &verifClock{t: time.Unix(1700000000, 0)}}
	o.peerStore = env.peers
	o.store = env.store
	o.onAnnounce = func(ih [20]byte, ip net.IP, port int, portOk bool) { env.callbacks++ }
	env.v = verifStartServer(o)
	env.v.s.tokenServer.timeNow = func() time.Time { return env.clock.t }
	return env
}

func (env *verifC10Env) write(method string, token string, src *net.UDPAddr) {
	a := &krpc.MsgArgs{ID: verifPeerID(env.v.id, []int{0}, false), Token: token}
	verifFill(a.InfoHash[:])
	switch {
	case env.bare:
		// nothing but the token: no port / no seq and value (a write that is malformed in other
		// respects is still unauthenticated first)
	case method == "announce_peer":
		p := 6881
		a.Port = &p
	default:
		sq := int64(1)
		a.Seq = &sq
		a.V = "vv"
	}
	m := krpc.Msg{Q: method, Y: "q", T: verifSymString(2), A: a}
	env.v.sock.deliver(verifEncode(m, 60), src)
}

func (env *verifC10Env) noEffect(what string) {
	verifAssert(len(env.peers.adds) == 0, "C10: "+what+": nothing is stored in the peer store")
	verifAssert(env.callbacks == 0, "C10: "+what+": no announce callback fires")
	verifAssert(env.store.puts == 0, "C10: "+what+": nothing is stored in the BEP 44 store")
	verifAssert(len(env.v.sock.sent) == 0 && env.v.sock.attempts == 0, "C10: "+what+": no reply is sent")
}

func (env *verifC10Env) tookEffect(method string) {
	if method == "announce_peer" {
		verifAssert(len(env.peers.adds) == 1 && env.callbacks == 1, "C10: a correctly tokened announce_peer is stored and fires the callback once")
	} else {
		verifAssert(env.store.puts == 1, "C10: a correctly tokened put is stored")
	}
	if verifEventCount("limiter.deny") == 0 && verifEventCount("limiter.waiterr") == 0 {
		verifAssert(len(env.v.sock.sent) == 1 && env.v.sock.sent[0].msg.Y == "r", "C10: a correctly tokened write is answered")
	}
}

func verifWriteMethod() string { return []string{"announce_peer", "put"}[verifChoice(0, 1)] }

// The token this node hands out to an IP is honoured from any source port of that IP (4-byte and
// v4-mapped forms of one address count as the same IP), at the issue instant and 10 minutes later.
func VerifC10_HandlerAccepts() {
	env := verifC10Server()
	ip := verifAnyIP()
	issuedTo := &net.UDPAddr{IP: ip, Port: verifPort()}
	tok := env.v.s.createToken(NewAddr(issuedTo))
	user := &net.UDPAddr{IP: ip, Port: verifPort()}
	verifAssume(user.Port != 0)
	if verifNondetBool() {
		env.clock.t = env.clock.t.Add(10 * time.Minute)
	}
	method := verifWriteMethod()
	env.write(method, tok, user)
	env.tookEffect(method)
	verifReach("end")
}

// Any token string that is not one this node issues to the source now or in the two previous
// intervals has no effect at all (covers absent, altered, truncated and extended tokens).
func VerifC10_HandlerForged() {
	env := verifC10Server()
	src := verifUDPAddr()
	addr := NewAddr(src)
	n := []int{0, 1, 19, 20, 21}[verifChoice(0, 4)]
	tok := verifSymString(n)
	// the three tokens that are live now: issued in the current interval and in the two before it
	now := env.clock.t
	for i := 0; i < 3; i++ {
		env.clock.t = now.Add(-time.Duration(i) * 5 * time.Minute)
		verifAssume(tok != env.v.s.createToken(addr))
	}
	env.clock.t = now
	method := verifWriteMethod()
	env.bare = verifNondetBool()
	env.write(method, tok, src)
	env.noEffect("a token this node did not issue")
	verifReach("end")
}

// A token issued to another IP, by another node (its own NewServer), or more than 15 minutes ago.
func VerifC10_HandlerWrongToken() {
	env := verifC10Server()
	src := verifUDPAddr()
	var tok string
	what := ""
	switch verifChoice(0, 2) {
	case 0:
		other := verifUDPAddr()
		verifAssume(!verifSameIP16(other.IP, src.IP))
		tok = env.v.s.createToken(NewAddr(other))
		what = "a token issued to another IP"
	case 1:
		other := verifStartServer(verifSrvOpt{noSecurity: true})
		other.s.tokenServer.timeNow = func() time.Time { return env.clock.t }
		verifAssume(!verifBytesEq(other.s.tokenServer.secret, env.v.s.tokenServer.secret) || len(env.v.s.tokenServer.secret) == 0)
		tok = other.s.createToken(NewAddr(src))
		what = "a token issued by another node"
	case 2:
		tok = env.v.s.createToken(NewAddr(src))
		env.clock.t = env.clock.t.Add(15*time.Minute + time.Second)
		what = "a token older than 15 minutes"
	}
	method := verifWriteMethod()
	env.write(method, tok, src)
	env.noEffect(what)
	verifReach("end")
}

func VerifC10_HandlerMustFail() {
	env := verifC10Server()
	src := verifUDPAddr4()
	env.write("announce_peer", env.v.s.createToken(NewAddr(src)), src)
	env.noEffect("twin (must fail)")
}
