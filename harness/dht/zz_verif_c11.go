package dht

import (
	"net"

	"github.com/anacrolix/dht/v2/krpc"
	peer_store "github.com/anacrolix/dht/v2/peer-store"
)

// C11: with the bundled in-memory peer store, an accepted announce_peer is what get_peers returns
// (and only that), values honour BEP 32, and every such reply carries a token. Announce and
// get_peers travel through the real serve loop and handlers; the store is the real InMemory.

func verifAnnounce(v *verifSrv, from *net.UDPAddr, ih krpc.ID, port *int, implied bool) {
	a := &krpc.MsgArgs{ID: verifIDInBucket(v.id, 0), InfoHash: ih, Port: port, ImpliedPort: implied,
		Token: v.s.createToken(NewAddr(from))}
	v.sock.deliver(verifEncode(krpc.Msg{Q: "announce_peer", Y: "q", T: "an", A: a}, 60), from)
}

// verifGetPeers sends get_peers and returns the reply (nil if the limiter dropped it).
func verifGetPeers(v *verifSrv, from *net.UDPAddr, ih krpc.ID, want []krpc.Want) *krpc.Msg {
	before := len(v.sock.sent)
	a := &krpc.MsgArgs{ID: verifIDInBucket(v.id, 1), InfoHash: ih, Want: want}
	v.sock.deliver(verifEncode(krpc.Msg{Q: "get_peers", Y: "q", T: "gp", A: a}, 60), from)
	for _, w := range v.sock.sent[before:] {
		if w.msg.T == "gp" && verifSameUDP(w.addr, from) {
			m := w.msg
			return &m
		}
	}
	return nil
}

func verifWants(want []krpc.Want, src net.IP) (w4, w6 bool) {
	if len(want) != 0 {
		for _, w := range want {
			if w == krpc.WantNodes {
				w4 = true
			}
			if w == krpc.WantNodes6 {
				w6 = true
			}
		}
		return
	}
	is4 := len(src) == 4 || verifIsMapped(src)
	return is4, !is4
}

func verifIsMapped(ip net.IP) bool {
	if len(ip) != 16 {
		return false
	}
	for i := 0; i < 10; i++ {
		if ip[i] != 0 {
			return false
		}
	}
	return ip[10] == 0xff && ip[11] == 0xff
}

func verifSameHost(a, b net.IP) bool { return verifSameIP16(a, b) }

func verifC11(requesterForms func() *net.UDPAddr, other bool) {
	verifLimiterAlwaysGrants()
	o := verifSrvOpt{noSecurity: true, peerStore: &peer_store.InMemory{}}
	hooked, hookCalls := false, 0
	if other && verifNondetBool() {
		// the embedding application also listens for announces (notification hook and peer store are
		// independent consumers of an accepted announce)
		hooked = true
		o.onAnnounce = func(ih [20]byte, ip net.IP, port int, portOk bool) { hookCalls++ }
	}
	v := verifStartServer(o)
	verifFixTokenClock(v.s)
	announcer := verifUDPAddr()
	ih := verifIDInBucket(v.id, 0) // arbitrary within one bucket (the bucket only matters for the nodes fallback)
	var portArg *int
	implied := verifNondetBool()
	if verifNondetBool() {
		p := int(verifNondetU16())
		verifAssume(p != 0)
		portArg = &p
	}
	verifAnnounce(v, announcer, ih, portArg, implied)
	wantPort, portKnown := 0, false
	if portArg != nil {
		wantPort, portKnown = *portArg, true
	}
	if implied {
		wantPort, portKnown = announcer.Port, true
	}
	if hooked {
		verifAssert(hookCalls == 1, "C11: the announce notification fires once for an accepted announce")
		verifReach("hooked")
	}
	requester := requesterForms()
	want := verifWant()
	reply := verifGetPeers(v, requester, ih, want)
	if reply == nil {
		return // no send budget
	}
	verifAssert(reply.Y == "r" && reply.R != nil, "C11: get_peers is answered with a response")
	verifAssert(reply.R.Token != nil && len(*reply.R.Token) > 0, "C11: every get_peers reply of a node with a peer store carries a token")
	verifAssert(v.s.validToken(*reply.R.Token, NewAddr(requester)), "C11: ... which the node honours for the requester")
	w4, w6 := verifWants(want, requester.IP)
	is4 := len(announcer.IP) == 4 || verifIsMapped(announcer.IP)
	for _, val := range reply.R.Values {
		verifAssert(verifSameHost(val.IP, announcer.IP), "C11: a returned endpoint has the announcer's IP")
		if portKnown {
			verifAssert(val.Port == wantPort, "C11: ... and the announced port (the UDP source port when implied_port is set)")
		}
		if len(val.IP) == 4 {
			verifAssert(w4, "C11: 6-byte entries go only to requesters wanting IPv4")
		} else {
			verifAssert(len(val.IP) == 16 && w6, "C11: 18-byte entries go only to requesters wanting IPv6")
		}
	}
	verifAssert(len(reply.R.Values) <= 1, "C11: one announce yields at most one endpoint")
	if (w4 && is4) || w6 {
		verifAssert(len(reply.R.Values) == 1, "C11: the announced endpoint comes back from get_peers")
		verifReach("returned")
	}
	// another infohash returns nothing that was not announced for it
	if !other {
		verifReach("end")
		return
	}
	other2 := verifIDInBucket(v.id, 1)
	if r2 := verifGetPeers(v, requester, other2, want); r2 != nil && r2.R != nil {
		verifAssert(len(r2.R.Values) == 0, "C11: no endpoint is returned for an infohash it was not announced for")
		verifAssert(r2.R.Token != nil, "C11: token present also without values")
	}
	verifReach("end")
}

func VerifC11_V4Requester()  { verifC11(verifUDPAddr4, false) }
func VerifC11_V6Requester() {
	verifC11(func() *net.UDPAddr {
		ip := verifIP16()
		if verifNondetBool() {
			ip = verifMapped()
		}
		return &net.UDPAddr{IP: ip, Port: 6881}
	}, false)
}
func VerifC11_OtherInfohash() {
	verifC11(func() *net.UDPAddr { return &net.UDPAddr{IP: net.IP{192, 0, 2, 1}, Port: 6881} }, true)
}

// A later announce from the same IP replaces the earlier endpoint; other IPs accumulate.
func VerifC11_Replace() {
	verifLimiterAlwaysGrants()
	o := verifSrvOpt{noSecurity: true, peerStore: &peer_store.InMemory{}}
	hooked, hookCalls := verifNondetBool(), 0
	if hooked {
		// notification hook and peer store are independent consumers of an accepted announce
		o.onAnnounce = func(ih [20]byte, ip net.IP, port int, portOk bool) { hookCalls++ }
	}
	v := verifStartServer(o)
	verifFixTokenClock(v.s)
	ip := verifIP4()
	a1 := &net.UDPAddr{IP: ip, Port: 1001}
	a2 := &net.UDPAddr{IP: ip, Port: 1002}
	ih := verifIDInBucket(v.id, 0)
	p1, p2 := 7001, 7002
	verifAnnounce(v, a1, ih, &p1, false)
	// reads interleaved with the writes: a get_peers served between the two announces returns the
	// first endpoint and must not pin it
	if verifNondetBool() {
		mid := verifGetPeers(v, verifUDPAddr4(), ih, nil)
		if mid == nil || mid.R == nil {
			return
		}
		verifAssert(len(mid.R.Values) == 1 && mid.R.Values[0].Port == p1, "C11: the first announce comes back until it is replaced")
		verifReach("read-between")
	}
	verifAnnounce(v, a2, ih, &p2, false)
	reply := verifGetPeers(v, verifUDPAddr4(), ih, nil)
	if reply == nil || reply.R == nil {
		return
	}
	verifAssert(len(reply.R.Values) == 1 && reply.R.Values[0].Port == p2, "C11: a later announce from the same IP replaces the endpoint")
	again := verifGetPeers(v, verifUDPAddr4(), ih, nil)
	if again == nil || again.R == nil {
		return
	}
	verifAssert(len(again.R.Values) == 1 && again.R.Values[0].Port == p2, "C11: ... and repeated reads keep returning the replacement")
	if hooked {
		verifAssert(hookCalls == 2, "C11: the announce notification fires once per accepted announce, next to the store")
		verifReach("hooked")
	}
	verifReach("end")
}

func VerifC11_MustFail() {
	v := verifStartServer(verifSrvOpt{noSecurity: true, peerStore: &peer_store.InMemory{}})
	verifFixTokenClock(v.s)
	a := verifUDPAddr4()
	ih := verifIDInBucket(v.id, 0)
	p := 7001
	verifAnnounce(v, a, ih, &p, false)
	reply := verifGetPeers(v, verifUDPAddr4(), ih, nil)
	verifAssert(reply == nil || len(reply.R.Values) == 0, "twin: announced peers never come back (must fail)")
}
