package dht

import (
	"crypto/ed25519"
	"crypto/sha1"
	"net"
	"strconv"

	"github.com/anacrolix/dht/v2/krpc"
)

// C12 / C13 at the wire: put and get through the real serve loop, handleQuery, bep44.Wrapper and the
// real Memory store.

func verifBencStr(s []byte) []byte { return append([]byte(strconv.Itoa(len(s))+":"), s...) }

func verifSignedBuf(salt []byte, seq int64, v []byte) []byte {
	var m []byte
	if len(salt) != 0 {
		m = append(m, "4:salt"...)
		m = append(m, verifBencStr(salt)...)
	}
	m = append(m, ("3:seqi" + strconv.FormatInt(seq, 10) + "e1:v")...)
	return append(m, verifBencStr(v)...)
}

type verifPutArgs struct {
	k    [32]byte
	sig  [64]byte
	salt []byte
	seq  int64
	cas  int64
	val  []byte
}

func (p verifPutArgs) mutable() bool { return p.k != [32]byte{} }

func (p verifPutArgs) target() krpc.ID {
	if p.mutable() {
		return sha1.Sum(append(append([]byte{}, p.k[:]...), p.salt...))
	}
	return sha1.Sum(verifBencStr(p.val))
}

// verifTargetInBucket0 restricts the run to items whose target differs from the node's own id in the
// top bit (SHA-1 is uninterpreted, so this only fixes which bucket the get handler starts its node
// walk from; the store logic does not depend on it).
func verifTargetInBucket0(v *verifSrv, t krpc.ID) {
	verifAssume((t[0]^v.id[0])&0x80 != 0)
}

func (p verifPutArgs) verifies() bool {
	return ed25519.Verify(p.k[:], verifSignedBuf(p.salt, p.seq, p.val), p.sig[:])
}

// verifWirePut sends a correctly tokened put and returns the single datagram sent in reply.
func verifWirePut(v *verifSrv, from *net.UDPAddr, p verifPutArgs, withSeq bool) *krpc.Msg {
	a := &krpc.MsgArgs{ID: verifIDInBucket(v.id, 0), Token: v.s.createToken(NewAddr(from)),
		V: string(p.val), K: p.k, Sig: p.sig, Salt: p.salt, Cas: p.cas}
	if withSeq {
		sq := p.seq
		a.Seq = &sq
	}
	before := len(v.sock.sent)
	v.sock.deliver(verifEncode(krpc.Msg{Q: "put", Y: "q", T: "pt", A: a}, 80), from)
	verifAssert(len(v.sock.sent) == before+1, "C08: a correctly tokened put gets exactly one datagram")
	if len(v.sock.sent) != before+1 {
		return nil
	}
	m := v.sock.sent[before].msg
	return &m
}

func verifWireGet(v *verifSrv, from *net.UDPAddr, target krpc.ID, seq *int64) *krpc.Msg {
	a := &krpc.MsgArgs{ID: verifIDInBucket(v.id, 0), Target: target, Seq: seq}
	before := len(v.sock.sent)
	v.sock.deliver(verifEncode(krpc.Msg{Q: "get", Y: "q", T: "gt", A: a}, 80), from)
	if len(v.sock.sent) != before+1 {
		return nil
	}
	m := v.sock.sent[before].msg
	return &m
}

func verifErrCode(m *krpc.Msg) int {
	if m != nil && m.Y == "e" && m.E != nil {
		return m.E.Code
	}
	return 0
}

// One put of an arbitrary item, then get for its target and for another target.
func VerifC12_WirePutGet() {
	verifLimiterAlwaysGrants()
	v := verifStartServer(verifSrvOpt{noSecurity: true, concreteID: true})
	verifFixTokenClock(v.s)
	verifFreezeClock(true) // no time passes between put and get (expiry is C13's Expiry entry)
	from := &net.UDPAddr{IP: net.IP{192, 0, 2, 9}, Port: 4001}
	var p verifPutArgs
	p.val = make([]byte, []int{2, 996, 997}[verifChoice(0, 2)])
	if len(p.val) == 2 {
		verifFill(p.val)
	}
	p.seq = []int64{0, 5, -3}[verifChoice(0, 2)]
	if verifNondetBool() {
		verifFill(p.k[:])
		verifAssume(p.k != [32]byte{})
		verifFill(p.sig[:])
		p.salt = make([]byte, []int{0, 64, 65}[verifChoice(0, 2)])
		verifFill(p.salt)
	}
	verifTargetInBucket0(v, p.target())
	tooBig := len(verifBencStr(p.val)) > 1000
	saltBig := p.mutable() && len(p.salt) > 64
	badSig := p.mutable() && !p.verifies()
	reply := verifWirePut(v, from, p, true)
	if reply == nil {
		return
	}
	accepted := !tooBig && !saltBig && !badSig
	if accepted {
		verifAssert(reply.Y == "r", "C12: an item within the limits whose signature verifies is stored and acknowledged")
	} else {
		c := verifErrCode(reply)
		verifAssert((c == 205 && tooBig) || (c == 207 && saltBig) || (c == 206 && badSig), "C12: a rejected put is answered with the BEP 44 error code of a rule it breaks")
		verifReach("rejected")
	}
	g := verifWireGet(v, from, p.target(), nil)
	if g == nil || g.R == nil {
		verifFail("C12: get is answered with a response")
		return
	}
	if accepted {
		verifAssert(g.R.Seq != nil && *g.R.Seq == p.seq, "C12: get serves the stored item's sequence number")
		verifAssert(g.R.K == p.k && g.R.Sig == p.sig, "C12: get serves the stored key and signature")
		verifAssert(verifBytesEq(g.R.V, verifBencStr(p.val)), "C12: get serves the stored value")
		verifReach("served")
	} else {
		verifAssert(len(g.R.V) == 0 && g.R.Seq == nil, "C12: nothing is served for a target whose put was rejected (store unchanged)")
	}
	verifAssert(g.R.Token != nil, "C10: a get reply carries a write token")
	other := verifWireGet(v, from, verifIDInBucket(v.id, 1), nil)
	if other != nil && other.R != nil {
		verifAssert(len(other.R.V) == 0, "C12: an item is served only under its own target")
	}
	verifReach("end")
}

// C13 at the wire: a stored mutable item at seq 5; get naming a sequence number receives the value only
// if the stored one is newer; a second put obeys the seq / cas rules with the right error codes.
func VerifC13_WireSeq()     { verifC13WireSeq(5, true) }
func VerifC13_WireNegSeq()  { verifC13WireSeq(-2, false) }
func VerifC13_WireNegSeq2() { verifC13WireSeq(-2, true) }

func verifC13WireSeq(base int64, secondPut bool) {
	verifLimiterAlwaysGrants()
	v := verifStartServer(verifSrvOpt{noSecurity: true, concreteID: true})
	verifFixTokenClock(v.s)
	verifFreezeClock(true) // no time passes between put and get (expiry is C13's Expiry entry)
	from := &net.UDPAddr{IP: net.IP{192, 0, 2, 9}, Port: 4001}
	var p verifPutArgs
	verifFill(p.k[:])
	verifAssume(p.k != [32]byte{})
	verifFill(p.sig[:])
	p.val = []byte("v1")
	// the stored sequence number: a usual one, or a negative one (any signed 64-bit value is a valid seq)
	p.seq = base
	verifAssume(p.verifies())
	verifTargetInBucket0(v, p.target())
	r1 := verifWirePut(v, from, p, true)
	verifAssert(r1 != nil && r1.Y == "r", "C13: the first put is stored")
	// get with or without a sequence number
	named := verifNondetI64()
	seqp := &named
	if verifNondetBool() {
		seqp = nil // the ordinary get
	}
	g := verifWireGet(v, from, p.target(), seqp)
	if g == nil || g.R == nil {
		verifFail("C13: get is answered")
		return
	}
	verifAssert(g.R.Seq != nil && *g.R.Seq == base, "C13: get reports the stored sequence number")
	if seqp != nil && named >= base {
		verifAssert(len(g.R.V) == 0, "C13: a get that names a sequence number is sent the value only if the stored one is newer")
		verifReach("withheld")
	} else {
		verifAssert(verifBytesEq(g.R.V, verifBencStr(p.val)), "C13: a get that names no sequence number, or an older one than the stored, is sent the value")
		verifReach("sent")
	}
	if !secondPut {
		verifReach("end")
		return
	}
	// second put: seq from {s-1,s,s+1}, cas from {0,s,9}, same or different value, correctly signed
	q := p
	q.seq = base - 1 + int64(verifChoice(0, 2))
	q.cas = []int64{0, base, 9}[verifChoice(0, 2)]
	if verifNondetBool() {
		q.val = []byte("v2")
	}
	verifFill(q.sig[:])
	verifAssume(q.verifies())
	r2 := verifWirePut(v, from, q, true)
	if r2 == nil {
		return
	}
	want := 0
	switch {
	case q.cas != 0 && q.cas != base:
		want = 301
	case q.seq < base, q.seq == base && string(q.val) != "v1":
		want = 302
	}
	verifAssert(verifErrCode(r2) == want && (want != 0 || r2.Y == "r"), "C13: a later put is accepted or refused with 301/302 by the BEP 44 rule")
	g2 := verifWireGet(v, from, p.target(), nil)
	if g2 != nil && g2.R != nil && g2.R.Seq != nil {
		verifAssert(*g2.R.Seq >= base, "C13: the stored sequence number never decreases")
		if want == 0 {
			verifAssert(*g2.R.Seq == q.seq && verifBytesEq(g2.R.V, verifBencStr(q.val)), "C13: an accepted put is what later gets return")
		} else {
			verifAssert(*g2.R.Seq == base && verifBytesEq(g2.R.V, verifBencStr(p.val)), "C13: a refused put leaves the stored item in place")
		}
	}
	verifReach("end")
}

func VerifC12_WireMustFail() {
	verifLimiterAlwaysGrants()
	v := verifStartServer(verifSrvOpt{noSecurity: true, concreteID: true})
	verifFixTokenClock(v.s)
	verifFreezeClock(true) // no time passes between put and get (expiry is C13's Expiry entry)
	from := &net.UDPAddr{IP: net.IP{192, 0, 2, 9}, Port: 4001}
	p := verifPutArgs{val: []byte("xx")}
	r := verifWirePut(v, from, p, true)
	verifAssert(r == nil || r.Y != "r", "twin: no put is ever acknowledged (must fail)")
}
