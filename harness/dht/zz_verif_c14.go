package dht

import (
	"context"
	"errors"

	"github.com/anacrolix/dht/v2/krpc"
)

// C14 (query level): every outbound query returns - reply, context error or time-out - after at most
// NumTries datagrams, whatever the placement of reply arrival, time passing, cancellation, socket
// write failure and Close; afterwards no transaction is pending and (engine verdict at the end of the
// path) no goroutine is left blocked.

const (
	verifActReply = iota
	verifActTime
	verifActCancel
	verifActClose
)

// Any caller-chosen rate-limiting configuration.
func verifAnyRateLimiting() (r QueryRateLimiting) {
	r.NotFirst = verifNondetBool()
	r.NotAny = verifNondetBool()
	r.WaitOnRetries = verifNondetBool()
	r.NoWaitFirst = verifNondetBool()
	return
}

func verifC14Query(maxTries int, withFaults bool) {
	v := verifStartServer(verifSrvOpt{noSecurity: true})
	tries := verifChoice(1, maxTries)
	if withFaults {
		v.sock.failWrite = verifChoice(0, tries) // which send fails (0 = none)
	}
	ctx, cancel := context.WithCancel(context.Background())
	defer cancel()
	dst := verifC07Addrs[0]
	in := QueryInput{NumTries: tries}
	if verifNondetBool() {
		in.RateLimiting.NoWaitFirst = true
	}
	p := verifStartQuery(v, ctx, dst, "ping", in)
	replied, cancelled, closed := false, false, false
	timeSteps := 0
	for step := 0; step < tries+2 && !p.done; step++ {
		acts := 2
		if withFaults {
			acts = 3
		}
		switch verifChoice(0, acts) {
		case verifActReply:
			if p.sent || len(v.sock.sent) > 0 {
				tid := p.tid
				if tid == "" && len(v.sock.sent) > 0 {
					tid = v.sock.sent[0].msg.T
				}
				v.sock.deliver(verifEncode(verifReplyMsg(v, tid), 50), dst)
				replied = true
			}
		case verifActTime:
			verifFireTimers()
			verifQuiesce()
			timeSteps++
		case verifActCancel:
			cancel()
			verifQuiesce()
			cancelled = true
		case verifActClose:
			v.s.Close()
			verifQuiesce()
			closed = true
		}
	}
	// let time pass until the query is over (every timer eventually expires)
	for i := 0; i < tries+2 && !p.done; i++ {
		verifFireTimers()
		verifQuiesce()
	}
	verifAssert(p.done, "C14: the query returns")
	n := 0
	for _, w := range v.sock.sent {
		if w.msg.Y == "q" {
			n++
		}
	}
	verifAssert(n <= tries && v.sock.attempts <= tries, "C14: at most NumTries datagrams are sent for one query")
	if p.res.Err == nil {
		verifAssert(replied && p.res.Reply.Y == "r", "C14: a query returns without error only with a reply")
		verifReach("replied")
	} else {
		switch {
		case errors.Is(p.res.Err, TransactionTimeout):
			verifAssert(!cancelled || !replied || true, "C14: time-out")
			verifReach("timeout")
		case errors.Is(p.res.Err, context.Canceled):
			verifAssert(cancelled, "C14: a context error only after cancellation")
			verifReach("cancelled")
		default:
			verifReach("failed")
		}
	}
	if !closed {
		verifAssert(p.outstanding() == 0, "C14: no pending transaction is left behind")
	} else {
		verifAssert(v.s.transactions.NumActive() == 0, "C14: no pending transaction is left behind (closed server)")
		// after Close, a new query fails without sending anything
		attempts := v.sock.attempts
		q := verifStartQuery(v, context.Background(), dst, "ping", QueryInput{RateLimiting: verifAnyRateLimiting(), NumTries: verifChoice(1, 2)})
		for i := 0; i < 4 && !q.done; i++ {
			verifFireTimers()
			verifQuiesce()
		}
		verifAssert(q.done && q.res.Err != nil, "C14: after Close a new query fails")
		verifAssert(v.sock.attempts == attempts, "C14: after Close nothing is sent")
		verifReach("closed")
	}
	verifReach("end")
}

func VerifC14_Query()       { verifC14Query(2, false) }
func VerifC14_QueryFaults() { verifC14Query(2, true) }
func VerifC14_Query3()      { verifC14Query(3, true) }

func VerifC14_MustFail() {
	v := verifStartServer(verifSrvOpt{noSecurity: true})
	p := verifStartQuery(v, context.Background(), verifC07Addrs[0], "ping", QueryInput{NumTries: 2})
	verifFireTimers()
	verifQuiesce()
	_ = krpc.Msg{}
	verifAssert(v.sock.attempts <= 1 || !p.sent, "twin: a two-try query never sends a second datagram (must fail)")
}

// A reply that arrives while the query is being cancelled: every order of the caller's select, the
// sender goroutine and the node's handling of the reply is explored (scheduler choices at every
// blocking point). Whatever the order, the query returns and nothing is left behind.
func VerifC14_LateReply() {
	v := verifStartServer(verifSrvOpt{noSecurity: true})
	ctx, cancel := context.WithCancel(context.Background())
	dst := verifC07Addrs[0]
	p := verifStartQuery(v, ctx, dst, "ping", QueryInput{})
	if !p.sent {
		cancel()
		return
	}
	reply := verifEncode(verifReplyMsg(v, p.tid), 50)
	if verifNondetBool() {
		cancel()
	} else {
		verifFireTimers() // the time-out instead of a cancellation
	}
	v.sock.in <- verifDatagram{b: reply, n: -1, addr: dst}
	verifQuiesce()
	for i := 0; i < 2 && !p.done; i++ {
		verifFireTimers()
		verifQuiesce()
	}
	cancel()
	verifAssert(p.done, "C14: the query returns whatever the order of cancellation, time-out and reply")
	verifAssert(p.outstanding() == 0, "C14: no pending transaction is left behind")
	verifReach("end")
}

// Traversal owners: Bootstrap when no starting node is available (resolver error, or an empty list
// with an empty table): it returns an error, and - engine verdict at the end of the path - leaves no
// goroutine behind.
func VerifC14_BootstrapCannotStart() {
	v := verifStartServer(verifSrvOpt{noSecurity: true})
	if verifNondetBool() {
		v.s.config.StartingNodes = func() ([]Addr, error) { return nil, verifErr{"resolver failed"} }
	} else {
		v.s.config.StartingNodes = func() ([]Addr, error) { return nil, nil }
	}
	_, err := v.s.Bootstrap()
	verifAssert(err != nil, "C14: Bootstrap without any starting node fails")
	verifAssert(v.sock.attempts == 0, "C14: ... without sending anything")
	verifQuiesce()
	// a second attempt is possible (the first one released the bootstrapping flag)
	_, err = v.s.Bootstrap()
	verifAssert(err != nil, "C14: and can be retried")
	verifReach("end")
}

// Bootstrap against one node that answers (or not): it returns once the lookup stalls, or with the
// context's error when cancelled first; nothing is left behind.
func VerifC14_Bootstrap() {
	verifLimiterAlwaysGrants()
	v := verifStartServer(verifSrvOpt{noSecurity: true, concreteID: true})
	verifFreezeClock(true)
	remote := verifC07Addrs[0]
	v.s.config.StartingNodes = func() ([]Addr, error) { return []Addr{NewAddr(remote)}, nil }
	ctx, cancel := context.WithCancel(context.Background())
	defer cancel()
	done := false
	var berr error
	go func() {
		_, berr = v.s.BootstrapContext(ctx)
		done = true
	}()
	verifQuiesce()
	answers := verifNondetBool()
	switch {
	case verifNondetBool():
		cancel()
		verifQuiesce()
		verifAssert(done && errors.Is(berr, context.Canceled), "C14: a cancelled Bootstrap returns the context's error")
		verifReach("cancelled")
	case answers && len(v.sock.sent) > 0:
		w := v.sock.sent[0]
		verifAssert(w.msg.Q == "find_node", "C14: Bootstrap sends find_node")
		v.sock.deliver(verifEncode(krpc.Msg{Y: "r", T: w.msg.T, R: &krpc.Return{ID: verifConcreteIDInBucket(v.id, 3, 1)}}, 60), remote)
		verifAssert(done && berr == nil, "C14: Bootstrap returns once its lookup has stalled")
		verifReach("answered")
	}
	for i := 0; i < 4 && !done; i++ {
		verifFireTimers()
		verifQuiesce()
	}
	verifAssert(done, "C14: Bootstrap returns")
	// let whatever is still in flight run into its time-out: nothing may stay blocked
	for i := 0; i < 4 && verifFireTimers() > 0; i++ {
		verifQuiesce()
	}
	verifAssert(v.s.Stats().OutstandingTransactions == 0, "C14: no pending transaction is left behind")
	verifReach("end")
}
