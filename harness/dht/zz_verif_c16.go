package dht

import (
	"net"

	"github.com/anacrolix/dht/v2/krpc"
)

// C16: an announce traversal on a real Server over the fake socket. The harness plays the network:
// it reads the get_peers / announce_peer datagrams the node writes and answers them (or not), in an
// order of its choosing, while a consumer goroutine keeps reading Announce.Peers.

type verifRemote struct {
	addr     *net.UDPAddr
	id       krpc.ID
	answers  bool
	errs     bool   // answers get_peers with a KRPC error instead of a response
	token    string // "" = answers without a token
	values   bool
	lists    []int // remotes it lists in nodes
	extra    []krpc.NodeInfo // further entries of its nodes list (e.g. another remote under a second ID)
	gotGP    int   // get_peers received
	announce []krpc.Msg
}

type verifC16Net struct {
	v       *verifSrv
	remotes []*verifRemote
	next    int // next datagram of v.sock.sent to look at
	pending []verifDatagram
	ih      krpc.ID
}

func (n *verifC16Net) remoteAt(a net.Addr) *verifRemote {
	for _, r := range n.remotes {
		if verifSameUDP(a, r.addr) {
			return r
		}
	}
	return nil
}

// absorb looks at what the node has written since the last call and queues the replies.
func (n *verifC16Net) absorb() {
	for ; n.next < len(n.v.sock.sent); n.next++ {
		w := n.v.sock.sent[n.next]
		r := n.remoteAt(w.addr)
		verifAssert(r != nil && w.ok && w.msg.Y == "q", "C16: the announce writes only queries, only to nodes of the network")
		if r == nil {
			continue
		}
		switch w.msg.Q {
		case "get_peers":
			r.gotGP++
			verifAssert(w.msg.A != nil && w.msg.A.InfoHash == n.ih, "C16: get_peers carries the announced infohash")
			if r.errs {
				n.pending = append(n.pending, verifDatagram{b: verifEncode(krpc.Msg{Y: "e", T: w.msg.T, E: &krpc.Error{Code: 201, Msg: "generic"}}, 60), n: -1, addr: r.addr})
				continue
			}
			if !r.answers {
				continue
			}
			ret := &krpc.Return{ID: r.id}
			if r.token != "" {
				t := r.token
				ret.Token = &t
			}
			if r.values {
				ret.Values = []krpc.NodeAddr{{IP: net.IP{198, 18, 0, 1}, Port: 51413}}
			}
			for _, j := range r.lists {
				o := n.remotes[j]
				ret.Nodes = append(ret.Nodes, krpc.NodeInfo{ID: o.id, Addr: krpc.NodeAddr{IP: o.addr.IP, Port: o.addr.Port}})
			}
			ret.Nodes = append(ret.Nodes, r.extra...)
			n.pending = append(n.pending, verifDatagram{b: verifEncode(krpc.Msg{Y: "r", T: w.msg.T, R: ret}, 80), n: -1, addr: r.addr})
		case "announce_peer":
			r.announce = append(r.announce, w.msg)
			n.pending = append(n.pending, verifDatagram{b: verifEncode(krpc.Msg{Y: "r", T: w.msg.T, R: &krpc.Return{ID: r.id}}, 60), n: -1, addr: r.addr})
		default:
			verifFail("C16: an announce sends only get_peers and announce_peer")
		}
	}
}

// step delivers one queued reply (any of them) or lets time pass; false when nothing can happen.
func (n *verifC16Net) step() bool {
	verifQuiesce()
	n.absorb()
	if len(n.pending) > 0 {
		k := verifChoice(0, len(n.pending)-1)
		d := n.pending[k]
		n.pending = append(n.pending[:k:k], n.pending[k+1:]...)
		n.v.sock.deliver(d.b, d.addr)
		return true
	}
	if verifFireTimers() > 0 {
		verifQuiesce()
		return true
	}
	return false
}

func verifC16(closeAt int, count int) {
	verifLimiterAlwaysGrants()
	v := verifStartServer(verifSrvOpt{noSecurity: true, concreteID: true})
	verifFreezeClock(true)
	n := &verifC16Net{v: v}
	n.ih = krpc.ID{0x11, 0x22, 0x33, 0x44, 0x55}
	for i := 0; i < count; i++ {
		r := &verifRemote{addr: &net.UDPAddr{IP: net.IP{10, 7, 0, byte(i + 1)}, Port: 6000 + i}}
		switch verifChoice(0, 2) {
		case 1:
			r.answers = true
		case 2:
			r.errs = true // a KRPC error is not a response: nothing to deliver, nobody to announce to
		}
		r.id = n.ih
		r.id[19] = byte(i + 1)
		if verifNondetBool() {
			r.token = string([]byte{'t', 'k', byte('a' + i)})
		}
		r.values = verifNondetBool()
		n.remotes = append(n.remotes, r)
	}
	if count > 1 {
		n.remotes[0].lists = []int{1}
	}
	v.s.config.StartingNodes = func() ([]Addr, error) { return []Addr{NewAddr(n.remotes[0].addr)}, nil }
	var opts []AnnounceOpt
	announcing := verifNondetBool()
	implied := verifNondetBool()
	port := 4242
	if announcing {
		opts = append(opts, AnnouncePeer(AnnouncePeerOpts{Port: port, ImpliedPort: implied}))
	}
	scrape := verifNondetBool()
	if scrape {
		opts = append(opts, Scrape())
	}
	a, err := v.s.AnnounceTraversal(n.ih, opts...)
	if err != nil {
		verifFail("C16: AnnounceTraversal with a starting node starts")
		return
	}
	var got []PeersValues
	peersClosed := false
	go func() {
		for pv := range a.Peers {
			got = append(got, pv)
		}
		peersClosed = true
	}()
	closed := false
	for i := 0; i < 6*count+6; i++ {
		if i == closeAt {
			if verifNondetBool() {
				a.Close()
			} else {
				a.StopTraversing()
			}
			closed = true
		}
		if !n.step() {
			break
		}
	}
	verifQuiesce()
	n.absorb()
	finished := false
	select {
	case <-a.Finished():
		finished = true
	default:
	}
	verifAssert(finished && peersClosed, "C16: the announce always finishes: Finished fires and the peers channel is closed")
	// every get_peers response received was delivered exactly once, with the responder's address and ID
	for _, r := range n.remotes {
		want := 0
		if r.answers && r.gotGP > 0 && !closed {
			want = 1
		}
		cnt := 0
		for _, pv := range got {
			if pv.NodeInfo.ID == r.id {
				cnt++
				verifAssert(pv.NodeInfo.Addr.Port == r.addr.Port && verifBytesEq(pv.NodeInfo.Addr.IP.To4(), r.addr.IP), "C16: a delivered response carries the responder's address")
				verifAssert((len(pv.Peers) == 1) == r.values, "C16: ... and its values")
			}
		}
		verifAssert(cnt <= 1, "C16: a get_peers response is delivered at most once")
		if want == 1 {
			verifAssert(cnt == 1, "C16: every get_peers response received is delivered on the peers channel while the consumer keeps reading")
			verifReach("delivered")
		}
		verifAssert(r.gotGP <= 1, "C04: each node is asked once")
		// announce_peer: only to nodes that answered get_peers with a token, carrying exactly that token
		verifAssert(len(r.announce) <= 1, "C16: at most one announce_peer per node")
		for _, m := range r.announce {
			verifAssert(announcing, "C16: announce_peer is sent only when announcing is enabled")
			verifAssert(r.answers && r.token != "" && r.gotGP == 1, "C16: announce_peer goes only to nodes that answered get_peers with a token during this traversal")
			verifAssert(m.A != nil && m.A.Token == r.token, "C16: announce_peer carries exactly the token that same node returned")
			verifAssert(m.A != nil && m.A.InfoHash == n.ih, "C16: announce_peer carries the announced infohash")
			verifAssert(m.A != nil && m.A.ImpliedPort == implied && m.A.Port != nil && *m.A.Port == port, "C16: announce_peer carries the configured port and implied_port flag")
			verifReach("announced")
		}
		if announcing && !closed && r.answers && r.token != "" && r.gotGP == 1 {
			verifAssert(len(r.announce) == 1, "C16: every member of the final closest set (fewer than K nodes here) is announced to")
		}
	}
	for _, w := range v.sock.sent {
		if w.msg.Q == "get_peers" {
			verifAssert((w.msg.A.Scrape == 1) == scrape, "C16: the scrape option sets the scrape argument")
		}
	}
	verifReach("end")
}

func VerifC16_OneNode()      { verifC16(-1, 1) }
func VerifC16_TwoNodes()     { verifC16(-1, 2) }
func VerifC16_CloseAnytime() { verifC16(verifChoice(0, 3), 2) }

func VerifC16_MustFail() {
	verifLimiterAlwaysGrants()
	v := verifStartServer(verifSrvOpt{noSecurity: true, concreteID: true})
	n := &verifC16Net{v: v, ih: krpc.ID{0x11}}
	r := &verifRemote{addr: &net.UDPAddr{IP: net.IP{10, 7, 0, 1}, Port: 6000}, answers: true, token: "tk", id: krpc.ID{0x11, 1}}
	n.remotes = []*verifRemote{r}
	v.s.config.StartingNodes = func() ([]Addr, error) { return []Addr{NewAddr(r.addr)}, nil }
	a, _ := v.s.AnnounceTraversal(n.ih, AnnouncePeer(AnnouncePeerOpts{Port: 1}))
	go func() {
		for range a.Peers {
		}
	}()
	for i := 0; i < 8 && n.step(); i++ {
	}
	verifAssert(len(r.announce) == 0, "twin: the node that answered with a token is never announced to (must fail)")
}

// A consumer that is briefly busy: the get_peers response arrives, then StopTraversing (or Close) is
// called, and only then does the consumer resume reading. The response must still be delivered.
func VerifC16_SlowConsumer() {
	verifLimiterAlwaysGrants()
	v := verifStartServer(verifSrvOpt{noSecurity: true, concreteID: true})
	verifFreezeClock(true)
	n := &verifC16Net{v: v, ih: krpc.ID{0x11, 0x22}}
	r := &verifRemote{addr: &net.UDPAddr{IP: net.IP{10, 7, 0, 1}, Port: 6000}, answers: true, token: "tka", values: true}
	r.id = n.ih
	r.id[19] = 1
	n.remotes = []*verifRemote{r}
	v.s.config.StartingNodes = func() ([]Addr, error) { return []Addr{NewAddr(r.addr)}, nil }
	announcing := verifNondetBool()
	var opts []AnnounceOpt
	if announcing {
		opts = append(opts, AnnouncePeer(AnnouncePeerOpts{Port: 4242}))
	}
	a, err := v.s.AnnounceTraversal(n.ih, opts...)
	if err != nil {
		verifFail("C16: AnnounceTraversal starts")
		return
	}
	resume := make(chan struct{})
	var got []PeersValues
	peersClosed := false
	go func() {
		<-resume
		for pv := range a.Peers {
			got = append(got, pv)
		}
		peersClosed = true
	}()
	// the get_peers goes out and is answered; nobody is reading Peers yet
	n.step()
	n.step()
	verifAssert(r.gotGP == 1 && len(got) == 0, "C16 harness: the response is pending on the peers channel")
	if verifNondetBool() {
		a.StopTraversing()
	} else {
		a.Close()
	}
	verifQuiesce()
	close(resume)
	for i := 0; i < 8 && n.step(); i++ {
	}
	verifQuiesce()
	verifAssert(len(got) == 1 && got[0].NodeInfo.ID == r.id, "C16: a response received before the stop is still delivered once the consumer resumes reading")
	verifAssert(peersClosed, "C16: the peers channel is closed once the announce is over")
	if len(r.announce) == 1 {
		verifAssert(len(got) == 1, "C16: a node that is announced to had its get_peers response delivered")
	}
	verifReach("end")
}

// Nine token-bearing nodes (K is 8): eight have answered and been taken off Peers; the ninth - the
// closest one - answers while the consumer is busy, StopTraversing is called, the consumer resumes.
// announce_peer must go to the members of the FINAL closest set: the latecomer is in, the farthest of
// the first eight is out.
func VerifC16_FullSetLatecomer() {
	verifLimiterAlwaysGrants()
	v := verifStartServer(verifSrvOpt{noSecurity: true, concreteID: true})
	verifFreezeClock(true)
	n := &verifC16Net{v: v, ih: krpc.ID{0x11, 0x22}}
	const count = 9
	for i := 0; i < count; i++ {
		r := &verifRemote{addr: &net.UDPAddr{IP: net.IP{10, 7, 0, byte(i + 1)}, Port: 6000 + i}, answers: true,
			token: string([]byte{'t', 'k', byte('a' + i)})}
		r.id = n.ih
		r.id[19] = byte(i + 1) // remote 0 is the closest, remote 8 the farthest
		n.remotes = append(n.remotes, r)
	}
	var starting []Addr
	for _, r := range n.remotes {
		starting = append(starting, NewAddr(r.addr))
	}
	v.s.config.StartingNodes = func() ([]Addr, error) { return starting, nil }
	a, err := v.s.AnnounceTraversal(n.ih, AnnouncePeer(AnnouncePeerOpts{Port: 4242}))
	if err != nil {
		verifFail("C16: AnnounceTraversal starts")
		return
	}
	resume := make(chan struct{})
	got := 0
	go func() {
		for range a.Peers {
			got++
			if got == count-1 {
				<-resume // busy after the eighth response
			}
		}
	}()
	// answer everybody except the closest node first
	late := n.remotes[0]
	var lateQuery *verifDatagram
	for i := 0; i < 60 && got < count-1; i++ {
		verifQuiesce()
		n.absorb()
		progressed := false
		for k := 0; k < len(n.pending); k++ {
			if verifSameUDP(n.pending[k].addr, late.addr) {
				d := n.pending[k]
				lateQuery = &d
				n.pending = append(n.pending[:k:k], n.pending[k+1:]...)
				k--
				continue
			}
			d := n.pending[k]
			n.pending = append(n.pending[:k:k], n.pending[k+1:]...)
			v.sock.deliver(d.b, d.addr)
			progressed = true
			break
		}
		if !progressed {
			break
		}
	}
	verifAssert(got == count-1 && lateQuery != nil, "C16 harness: eight responses delivered, the closest node's reply withheld")
	if lateQuery == nil {
		return
	}
	v.sock.deliver(lateQuery.b, lateQuery.addr) // arrives while the consumer is busy
	a.StopTraversing()
	verifQuiesce()
	close(resume)
	for i := 0; i < 60; i++ { // the announce_peer queries are answered in the order they were written
		verifQuiesce()
		n.absorb()
		if len(n.pending) > 0 {
			d := n.pending[0]
			n.pending = n.pending[1:]
			v.sock.deliver(d.b, d.addr)
		} else if verifFireTimers() == 0 {
			break
		}
	}
	verifQuiesce()
	n.absorb()
	verifAssert(got == count, "C16: the response pending at StopTraversing is still delivered")
	verifAssert(len(late.announce) == 1 && late.announce[0].A.Token == late.token, "C16: the latecomer, a member of the final closest set, is announced to with its own token")
	verifAssert(len(n.remotes[count-1].announce) == 0, "C16: the node pushed out of the closest set gets no announce_peer")
	for i := 1; i < count-1; i++ {
		verifAssert(len(n.remotes[i].announce) == 1, "C16: every member of the final closest set is announced to once")
	}
	verifReach("end")
}

// C14 (announce stopped): the owner calls Close while a get_peers reply is still on its way and then
// stops reading Peers for good - the natural way to abandon an announce. Nothing may stay blocked.
func VerifC14_AnnounceAbandoned() {
	verifLimiterAlwaysGrants()
	v := verifStartServer(verifSrvOpt{noSecurity: true, concreteID: true})
	verifFreezeClock(true)
	n := &verifC16Net{v: v, ih: krpc.ID{0x11, 0x22}}
	r := &verifRemote{addr: &net.UDPAddr{IP: net.IP{10, 7, 0, 1}, Port: 6000}, answers: true, token: "tka"}
	r.id = n.ih
	r.id[19] = 1
	n.remotes = []*verifRemote{r}
	v.s.config.StartingNodes = func() ([]Addr, error) { return []Addr{NewAddr(r.addr)}, nil }
	a, err := v.s.AnnounceTraversal(n.ih)
	if err != nil {
		verifFail("C14: AnnounceTraversal starts")
		return
	}
	verifQuiesce()
	n.absorb() // the get_peers query is out, its reply queued by the network
	deliverAll := func() {
		for len(n.pending) > 0 {
			d := n.pending[0]
			n.pending = n.pending[1:]
			v.sock.deliver(d.b, d.addr)
		}
	}
	if verifNondetBool() {
		a.Close() // the owner gives up before the reply arrives ...
		verifQuiesce()
		deliverAll()
		verifReach("close-first")
	} else {
		deliverAll() // ... or after it arrived, without ever having read it
		a.Close()
		verifQuiesce()
		verifReach("reply-first")
	}
	for i := 0; i < 4 && verifFireTimers() > 0; i++ {
		verifQuiesce()
	}
	verifReach("end")
}
