package dht

import (
	"net"

	"github.com/anacrolix/dht/v2/krpc"
)

// C16 with a network in which one address is listed under two node IDs (a node that changed its ID,
// or a list crafted that way): the starting node answers get_peers with its token and a nodes list
// naming node A twice, under its real ID and under another one, in either order. The announce still
// finishes: A is asked once, both responses are delivered, both nodes are announced to with their own
// tokens, Finished fires and the peers channel is closed.
func VerifC16_OneAddressTwoIDs() {
	verifLimiterAlwaysGrants()
	v := verifStartServer(verifSrvOpt{noSecurity: true, concreteID: true})
	verifFreezeClock(true)
	n := &verifC16Net{v: v}
	n.ih = krpc.ID{0x11, 0x22, 0x33, 0x44, 0x55}
	for i := 0; i < 2; i++ {
		r := &verifRemote{addr: &net.UDPAddr{IP: net.IP{10, 7, 0, byte(i + 1)}, Port: 6000 + i}, answers: true}
		r.id = n.ih
		r.id[19] = byte(i + 1)
		r.token = string([]byte{'t', 'k', byte('a' + i)})
		n.remotes = append(n.remotes, r)
	}
	a := n.remotes[1]
	other := a.id
	other[19] = byte(verifChoice(3, 4)) // nearer to / as far from the infohash as the starting node
	aliasFirst := verifNondetBool()
	alias := krpc.NodeInfo{ID: other, Addr: krpc.NodeAddr{IP: a.addr.IP, Port: a.addr.Port}}
	real := krpc.NodeInfo{ID: a.id, Addr: krpc.NodeAddr{IP: a.addr.IP, Port: a.addr.Port}}
	if aliasFirst {
		n.remotes[0].extra = []krpc.NodeInfo{alias, real}
	} else {
		n.remotes[0].extra = []krpc.NodeInfo{real, alias}
	}
	v.s.config.StartingNodes = func() ([]Addr, error) { return []Addr{NewAddr(n.remotes[0].addr)}, nil }
	an, err := v.s.AnnounceTraversal(n.ih, AnnouncePeer(AnnouncePeerOpts{Port: 4242}))
	if err != nil {
		verifFail("C16: AnnounceTraversal with a starting node starts")
		return
	}
	var got []PeersValues
	peersClosed := false
	go func() {
		for pv := range an.Peers {
			got = append(got, pv)
		}
		peersClosed = true
	}()
	for i := 0; i < 20 && n.step(); i++ {
	}
	verifQuiesce()
	n.absorb()
	finished := false
	select {
	case <-an.Finished():
		finished = true
	default:
	}
	verifAssert(finished && peersClosed, "C16: the announce always finishes: Finished fires and the peers channel is closed")
	for _, r := range n.remotes {
		verifAssert(r.gotGP == 1, "C04: each address is asked once, under however many IDs it is listed")
		cnt := 0
		for _, pv := range got {
			if pv.NodeInfo.ID == r.id {
				cnt++
			}
		}
		verifAssert(cnt == 1, "C16: every get_peers response received is delivered once")
		verifAssert(len(r.announce) == 1 && r.announce[0].A != nil && r.announce[0].A.Token == r.token, "C16: every member of the final closest set is announced to with its own token")
	}
	verifReach("end")
}
