package dht

import (
	"net"

	"github.com/anacrolix/dht/v2/krpc"
)

// C16 through the classic entry point Server.Announce(infohash, port, impliedPort, opts...): port
// and implied_port are independent arguments; all four combinations (and the scrape option) against
// one node that answers with a token. announce_peer carries exactly the configured port and flag;
// with neither a port nor the flag nothing is announced.
func VerifC16_AnnounceEntryPoint() {
	verifLimiterAlwaysGrants()
	v := verifStartServer(verifSrvOpt{noSecurity: true, concreteID: true})
	verifFreezeClock(true)
	n := &verifC16Net{v: v}
	n.ih = krpc.ID{0x11, 0x22, 0x33, 0x44, 0x55}
	r := &verifRemote{addr: &net.UDPAddr{IP: net.IP{10, 7, 0, 1}, Port: 6000}, answers: true, token: "tka"}
	r.id = n.ih
	r.id[19] = 1
	n.remotes = []*verifRemote{r}
	v.s.config.StartingNodes = func() ([]Addr, error) { return []Addr{NewAddr(r.addr)}, nil }
	port := []int{0, 6881}[verifChoice(0, 1)]
	implied := verifNondetBool()
	var opts []AnnounceOpt
	scrape := verifNondetBool()
	if scrape {
		opts = append(opts, Scrape())
	}
	a, err := v.s.Announce(n.ih, port, implied, opts...)
	if err != nil {
		verifFail("C16: Announce with a starting node starts")
		return
	}
	peersClosed := false
	go func() {
		for range a.Peers {
		}
		peersClosed = true
	}()
	for i := 0; i < 12 && n.step(); i++ {
	}
	verifQuiesce()
	n.absorb()
	verifAssert(peersClosed, "C16: the announce finishes and the peers channel is closed")
	if port == 0 && !implied {
		verifAssert(len(r.announce) == 0, "C16: without a port and without implied_port nothing is announced")
		verifReach("lookup-only")
	} else {
		verifAssert(len(r.announce) == 1, "C16: the node that answered with a token is announced to once")
		if len(r.announce) == 1 {
			m := r.announce[0]
			verifAssert(m.A != nil && m.A.Token == r.token && m.A.InfoHash == n.ih, "C16: announce_peer carries the node's own token and the infohash")
			verifAssert(m.A != nil && m.A.Port != nil && *m.A.Port == port && m.A.ImpliedPort == implied, "C16: announce_peer carries the configured port and the configured implied_port flag (the two are independent)")
		}
		verifReach("announced")
	}
	for _, w := range v.sock.sent {
		if w.msg.Q == "get_peers" {
			verifAssert((w.msg.A.Scrape == 1) == scrape, "C16: the scrape option sets the scrape argument")
		}
	}
	verifReach("end")
}
