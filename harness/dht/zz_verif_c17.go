package dht

import (
	"hash/crc32"
	"net"

	"github.com/anacrolix/dht/v2/krpc"
)

// ---- reference model of BEP 42, written independently of security.go ----

func refIsV4Mapped(ip net.IP) bool {
	if len(ip) != 16 {
		return false
	}
	for i := 0; i < 10; i++ {
		if ip[i] != 0 {
			return false
		}
	}
	return ip[10] == 0xff && ip[11] == 0xff
}

// refV4 returns the 4 significant bytes when ip is an IPv4 address in either form.
func refV4(ip net.IP) (b [4]byte, ok bool) {
	if len(ip) == 4 {
		copy(b[:], ip)
		return b, true
	}
	if refIsV4Mapped(ip) {
		copy(b[:], ip[12:16])
		return b, true
	}
	return b, false
}

func refCRC(ip net.IP, r byte) uint32 {
	tab := crc32.MakeTable(crc32.Castagnoli)
	if v4, ok := refV4(ip); ok {
		buf := []byte{v4[0] & 0x03, v4[1] & 0x0f, v4[2] & 0x3f, v4[3] & 0xff}
		buf[0] |= (r & 7) << 5
		return crc32.Checksum(buf, tab)
	}
	buf := []byte{ip[0] & 0x01, ip[1] & 0x03, ip[2] & 0x07, ip[3] & 0x0f, ip[4] & 0x1f, ip[5] & 0x3f, ip[6] & 0x7f, ip[7] & 0xff}
	buf[0] |= (r & 7) << 5
	return crc32.Checksum(buf, tab)
}

func refRule(id [20]byte, ip net.IP) bool {
	crc := refCRC(ip, id[19])
	top21 := crc >> 11
	idTop := uint32(id[0])<<13 | uint32(id[1])<<5 | uint32(id[2])>>3
	return top21 == idTop
}

func refLocal(ip net.IP) bool {
	if v4, ok := refV4(ip); ok {
		switch {
		case v4[0] == 10:
			return true
		case v4[0] == 172 && v4[1]&0xf0 == 16:
			return true
		case v4[0] == 192 && v4[1] == 168:
			return true
		case v4[0] == 169 && v4[1] == 254:
			return true
		case v4[0] == 127:
			return true
		}
		return false
	}
	if len(ip) != 16 {
		return false
	}
	if ip[0] == 0xfe && ip[1]&0xc0 == 0x80 {
		return true
	}
	for i := 0; i < 15; i++ {
		if ip[i] != 0 {
			return false
		}
	}
	return ip[15] == 1
}

// ---- C17 (1): securing changes only the first 21 bits, is idempotent, and verifies ----

func verifC17Secure(ip net.IP) {
	var id krpc.ID
	verifFill(id[:])
	before := id
	SecureNodeId(&id, ip)
	for i := 3; i < 20; i++ {
		verifAssert(id[i] == before[i], "C17 secure: bytes 3..19 unchanged")
	}
	verifAssert(id[2]&7 == before[2]&7, "C17 secure: low 3 bits of byte 2 unchanged")
	again := id
	SecureNodeId(&again, ip)
	verifAssert(again == id, "C17 secure: idempotent")
	verifAssert(NodeIdSecure(id, ip), "C17 secure: secured id verifies")
	verifAssert(refLocal(ip) || refRule(id, ip), "C17 secure: secured id satisfies the reference rule")
	verifReach("end")
}

func VerifC17_Secure4()      { verifC17Secure(verifIP4()) }
func VerifC17_Secure16()     { verifC17Secure(verifIP16()) }
func VerifC17_SecureMapped() { verifC17Secure(verifMapped()) }

// ---- C17 (2,3): verification agrees with the reference rule; exemption exactly the local ranges ----

func verifC17Diff(ip net.IP) {
	var id [20]byte
	verifFill(id[:])
	got := NodeIdSecure(id, ip)
	want := refLocal(ip) || refRule(id, ip)
	verifAssert(got == want, "C17 verify: NodeIdSecure agrees with the BEP 42 reference")
	verifAssert(isLocalNetwork(ip) == refLocal(ip), "C17 verify: exemption is exactly private/loopback/link-local")
	verifReach("end")
}

func VerifC17_Diff4()      { verifC17Diff(verifIP4()) }
func VerifC17_Diff16()     { verifC17Diff(verifIP16()) }
func VerifC17_DiffMapped() { verifC17Diff(verifMapped()) }

// ---- C17 (4): an ID the node generates for itself with a public IP verifies for that IP ----

func VerifC17_InitNodeId() {
	ip := verifAnyIP()
	c := &ServerConfig{
		Conn:       verifNewConn(),
		PublicIP:   ip,
		NoSecurity: verifNondetBool(),
	}
	if verifNondetBool() {
		c.Conn = nil // random-ID path
	}
	det := c.InitNodeId()
	if c.Conn != nil {
		verifAssert(det, "C17 init: deterministic with Conn and PublicIP")
		verifAssert(NodeIdSecure(c.NodeId, ip), "C17 init: generated id verifies for the public IP (deterministic path)")
		verifAssert(refLocal(ip) || refRule(c.NodeId, ip), "C17 init: generated id satisfies the reference rule")
	} else if !c.NoSecurity {
		verifAssert(NodeIdSecure(c.NodeId, ip), "C17 init: generated id verifies for the public IP (random path, security on)")
	}
	verifReach("end")
}

func VerifC17_Deterministic() {
	ip := verifAnyIP()
	ua := &net.UDPAddr{IP: ip, Port: verifPort()}
	id := MakeDeterministicNodeID(ua)
	verifAssert(NodeIdSecure(id, ip), "C17 deterministic id verifies for the address it was made for")
	verifAssert(refLocal(ip) || refRule(id, ip), "C17 deterministic id satisfies the reference rule")
	verifReach("end")
}

// ---- must-fail twin ----

func VerifC17_MustFail() {
	var id krpc.ID
	verifFill(id[:])
	ip := verifIP4()
	before := id
	SecureNodeId(&id, ip)
	verifAssert(id[0] == before[0], "twin: byte 0 unchanged (must fail)")
	verifReach("end")
}
