package dht

import (
	"net"

	"github.com/anacrolix/dht/v2/krpc"
)

func verifIP4() net.IP {
	ip := make(net.IP, 4)
	verifFill(ip)
	return ip
}

func verifIP16() net.IP {
	ip := make(net.IP, 16)
	verifFill(ip)
	return ip
}

// C17 (1): securing changes only the first 21 bits, is idempotent, and verifies. IPv4 (4-byte form).
func VerifC17_Secure4() {
	var id krpc.ID
	verifFill(id[:])
	ip := verifIP4()
	before := id
	SecureNodeId(&id, ip)
	for i := 3; i < 20; i++ {
		verifAssert(id[i] == before[i], "bytes 3..19 unchanged")
	}
	verifAssert(id[2]&7 == before[2]&7, "low 3 bits of byte 2 unchanged")
	again := id
	SecureNodeId(&again, ip)
	verifAssert(again == id, "idempotent")
	verifAssert(NodeIdSecure(id, ip), "secured id verifies")
	verifReach("end")
}

func VerifC17_MustFail() {
	var id krpc.ID
	verifFill(id[:])
	ip := verifIP4()
	before := id
	SecureNodeId(&id, ip)
	verifAssert(id[0] == before[0], "twin: byte 0 unchanged (must fail)")
	verifReach("end")
}
