package dht

import (
	"github.com/anacrolix/dht/v2/int160"
)

func verifID() int160.T {
	var b [20]byte
	verifFill(b[:])
	return int160.FromByteArray(b)
}

// refLess: unsigned 160-bit comparison of the big-endian byte strings, written independently of Cmp.
func refLess(a, b [20]byte) bool {
	for i := 0; i < 20; i++ {
		if a[i] != b[i] {
			return a[i] < b[i]
		}
	}
	return false
}

// C18 (1): XOR distance is symmetric, zero exactly for equal ids, ordered as unsigned 160-bit integers.
func VerifC18_Metric() {
	a, b := verifID(), verifID()
	dab := int160.Distance(a, b)
	dba := int160.Distance(b, a)
	verifAssert(dab == dba, "C18 metric: symmetric")
	verifAssert(dab.IsZero() == (a == b), "C18 metric: zero iff equal")
	verifAssert(a.Distance(b) == dab, "C18 metric: method and function agree")
	x, y := verifID(), verifID()
	c := x.Cmp(y)
	xb, yb := x.AsByteArray(), y.AsByteArray()
	switch {
	case refLess(xb, yb):
		verifAssert(c == -1, "C18 metric: Cmp = -1 iff unsigned less")
	case refLess(yb, xb):
		verifAssert(c == 1, "C18 metric: Cmp = 1 iff unsigned greater")
	default:
		verifAssert(c == 0, "C18 metric: Cmp = 0 iff equal")
	}
	verifReach("end")
}

// refPrefixLen: number of leading bits a and b share (160 if equal), by an independent bit loop.
func refPrefixLen(a, b [20]byte) int {
	n := 0
	for i := 0; i < 160; i++ {
		ab := a[i/8] >> (7 - uint(i%8)) & 1
		bb := b[i/8] >> (7 - uint(i%8)) & 1
		if ab != bb {
			return n
		}
		n++
	}
	return n
}

// C18 (2): bucket index = length of the shared bit prefix with the root; panics exactly for id = root.
func VerifC18_BucketIndex() {
	var tbl table
	tbl.rootID = verifID()
	id := verifID()
	if id == tbl.rootID {
		panicked := false
		func() {
			defer func() {
				if recover() != nil {
					panicked = true
				}
			}()
			tbl.bucketIndex(id)
		}()
		verifAssert(panicked, "C18 bucketIndex: panics for the root id")
		verifReach("root")
		return
	}
	bi := tbl.bucketIndex(id)
	verifAssert(bi == refPrefixLen(tbl.rootID.AsByteArray(), id.AsByteArray()), "C18 bucketIndex: equals shared prefix length")
	verifAssert(bi >= 0 && bi < 160, "C18 bucketIndex: in range")
	verifReach("end")
}

// C18 (3): a random id drawn for bucket b lands in bucket b (for every random draw).
func verifC18RandomID(lo, hi int) {
	var tbl table
	tbl.rootID = verifID()
	b := verifChoice(lo, hi)
	id := randomIdInBucket(tbl.rootID, b)
	verifAssert(id != tbl.rootID, "C18 randomId: never the root id")
	verifAssume(id != tbl.rootID)
	verifAssert(tbl.bucketIndex(id) == b, "C18 randomId: lands in the requested bucket")
	verifAssert(refPrefixLen(tbl.rootID.AsByteArray(), id.AsByteArray()) == b, "C18 randomId: shares exactly b leading bits with the root")
	r := tbl.randomIdForBucket(b)
	verifAssert(tbl.bucketIndex(r) == b, "C18 randomIdForBucket: lands in the requested bucket")
	verifReach("end")
}

func VerifC18_RandomIdQuick()    { verifC18RandomID(0, 0); }
func VerifC18_RandomIdAll()      { verifC18RandomID(0, 159) }

func VerifC18_RandomIdSome() {
	var tbl table
	tbl.rootID = verifID()
	bs := []int{0, 1, 7, 8, 9, 63, 64, 100, 151, 152, 158, 159}
	b := bs[verifChoice(0, len(bs)-1)]
	id := randomIdInBucket(tbl.rootID, b)
	verifAssert(id != tbl.rootID, "C18 randomId: never the root id")
	verifAssume(id != tbl.rootID)
	verifAssert(tbl.bucketIndex(id) == b, "C18 randomId: lands in the requested bucket")
	verifAssert(refPrefixLen(tbl.rootID.AsByteArray(), id.AsByteArray()) == b, "C18 randomId: shares exactly b leading bits with the root")
	verifReach("end")
}

func VerifC18_MustFail() {
	a, b := verifID(), verifID()
	verifAssert(a.Cmp(b) != 1, "twin: Cmp never returns 1 (must fail)")
	verifReach("end")
}
