package dht

import (
	"net/netip"

	"github.com/anacrolix/generics"

	"github.com/anacrolix/dht/v2/containers"
	"github.com/anacrolix/dht/v2/int160"
	k_nearest_nodes "github.com/anacrolix/dht/v2/k-nearest-nodes"
	"github.com/anacrolix/dht/v2/krpc"
	"github.com/anacrolix/dht/v2/types"
)

func verifNetipAddr() netip.Addr {
	if verifChoice(0, 1) == 0 {
		var b [4]byte
		verifFill(b[:])
		return netip.AddrFrom4(b)
	}
	var b [16]byte
	verifFill(b[:])
	return netip.AddrFrom16(b)
}

// verifAMI: an arbitrary lookup candidate: id known or not (absent id has the zero value, the
// documented convention), IPv4 or IPv6 address, any port.
func verifAMI() types.AddrMaybeId {
	var a types.AddrMaybeId
	a.Addr = krpc.NodeAddrPort{AddrPort: netip.AddrPortFrom(verifNetipAddr(), verifNondetU16())}
	if verifNondetBool() {
		a.Id = generics.Some(verifID())
	}
	return a
}

func refDistLess(a, b, target int160.T) bool {
	da := a.AsByteArray()
	db := b.AsByteArray()
	t := target.AsByteArray()
	for i := 0; i < 20; i++ {
		x, y := da[i]^t[i], db[i]^t[i]
		if x != y {
			return x < y
		}
	}
	return false
}

// C18 (4): CloserThan is a strict total order ranking known ids by XOR distance ahead of unknown ones.
func VerifC18_CloserThanLaws() {
	target := verifID()
	a, b, c := verifAMI(), verifAMI(), verifAMI()
	ab := a.CloserThan(b, target)
	ba := b.CloserThan(a, target)
	bc := b.CloserThan(c, target)
	ac := a.CloserThan(c, target)
	verifAssert(!a.CloserThan(a, target), "C18 closer: irreflexive")
	verifAssert(!(ab && ba), "C18 closer: asymmetric")
	verifAssert(!(ab && bc) || ac, "C18 closer: transitive")
	verifAssert(ab || ba || a == b, "C18 closer: total (incomparable elements are identical)")
	if a.Id.Ok && !b.Id.Ok {
		verifAssert(ab && !ba, "C18 closer: known ids rank ahead of unknown ones")
	}
	if a.Id.Ok && b.Id.Ok {
		if refDistLess(a.Id.Value, b.Id.Value, target) {
			verifAssert(ab, "C18 closer: known ids ordered by XOR distance to the target")
		}
		if refDistLess(b.Id.Value, a.Id.Value, target) {
			verifAssert(ba, "C18 closer: known ids ordered by XOR distance to the target (reverse)")
		}
	}
	verifReach("end")
}

// C18 (5): the candidate set: after adding n elements (any order) and deleting one, Next is the
// minimum under CloserThan and Len counts distinct elements.
func verifC18SortedSet(n int) {
	target := verifID()
	set := containers.NewImmutableAddrMaybeIdsByDistance(target)
	elems := make([]types.AddrMaybeId, n)
	for i := range elems {
		elems[i] = verifAMI()
		set = set.Add(elems[i])
	}
	distinct := 0
	for i := range elems {
		dup := false
		for j := 0; j < i; j++ {
			if elems[j] == elems[i] {
				dup = true
			}
		}
		if !dup {
			distinct++
		}
	}
	verifAssert(set.Len() == distinct, "C18 set: Len counts distinct elements")
	next := set.Next()
	isMember := false
	for i := range elems {
		if elems[i] == next {
			isMember = true
		}
		verifAssert(!elems[i].CloserThan(next, target), "C18 set: Next is the minimum")
	}
	verifAssert(isMember, "C18 set: Next is an element that was added")
	// delete the minimum: the new minimum is no closer, and the length drops by one
	set2 := set.Delete(next)
	verifAssert(set2.Len() == distinct-1, "C18 set: Delete removes exactly one element")
	if set2.Len() > 0 {
		n2 := set2.Next()
		verifAssert(n2 != next, "C18 set: deleted element is gone")
		verifAssert(next.CloserThan(n2, target), "C18 set: after deleting the minimum the next one is farther")
	}
	verifReach("end")
}

func VerifC18_SortedSet2() { verifC18SortedSet(2) }
func VerifC18_SortedSet3() { verifC18SortedSet(3) }
func VerifC18_SortedSet4() { verifC18SortedSet(4) }

func verifKey() k_nearest_nodes.Key {
	var k k_nearest_nodes.Key
	verifFill(k.ID[:])
	// addresses from a small concrete universe (the tie-break hashes the address string)
	addrs := []string{"10.0.0.1:1", "10.0.0.2:1", "10.0.0.1:2", "[2001:db8::1]:1"}
	k.Addr = krpc.NodeAddrPort{AddrPort: netip.MustParseAddrPort(addrs[verifChoice(0, len(addrs)-1)])}
	return k
}

// C18 (6): the K-nearest container retains exactly the K nearest of the pushed elements, in distance
// order, whatever the push order.
func verifC18KNearest(n, k int) { verifC18KNearestTie(n, k, false) }

// tie: two of the pushed keys (any pair, so any push order) carry the same node ID - equal distance -
// and differ only in their address (another host, or another port of the same host).
func verifC18KNearestTie(n, k int, tie bool) {
	target := verifID()
	c := k_nearest_nodes.New(target, k)
	keys := make([]k_nearest_nodes.Key, n)
	for i := range keys {
		keys[i] = verifKey()
	}
	if tie {
		pairs := [][2]int{{0, 1}, {0, 2}, {1, 2}}
		pr := pairs[verifChoice(0, 2)]
		verifAssume(keys[pr[0]].ID == keys[pr[1]].ID)
		verifAssume(keys[pr[0]].Addr != keys[pr[1]].Addr)
	}
	for i := range keys {
		c = c.Push(k_nearest_nodes.Elem{Key: keys[i], Data: i})
		verifAssert(c.Len() <= k, "C18 knearest: never more than K")
	}
	distinct := 0
	for i := range keys {
		dup := false
		for j := 0; j < i; j++ {
			if keys[j] == keys[i] {
				dup = true
			}
		}
		if !dup {
			distinct++
		}
	}
	want := distinct
	if want > k {
		want = k
	}
	verifAssert(c.Len() == want, "C18 knearest: Len = min(K, distinct keys)")
	verifAssert(c.Full() == (want >= k), "C18 knearest: Full iff K elements")
	var got []k_nearest_nodes.Elem
	c.Range(func(e k_nearest_nodes.Elem) { got = append(got, e) })
	verifAssert(len(got) == want, "C18 knearest: Range yields Len elements")
	for i := range got {
		member := false
		for j := range keys {
			if keys[j] == got[i].Key {
				member = true
			}
		}
		verifAssert(member, "C18 knearest: retained element was pushed")
		if i > 0 {
			verifAssert(!refDistLess(got[i].ID.Int160(), got[i-1].ID.Int160(), target), "C18 knearest: Range is in distance order")
		}
		// no pushed element is strictly closer than a retained one unless it is retained too
		for j := range keys {
			if refDistLess(keys[j].ID.Int160(), got[i].ID.Int160(), target) {
				kept := false
				for m := range got {
					if got[m].Key == keys[j] {
						kept = true
					}
				}
				verifAssert(kept, "C18 knearest: no dropped element is closer than a retained one")
			}
		}
	}
	if want > 0 {
		verifAssert(c.Farthest().Key == got[len(got)-1].Key, "C18 knearest: Farthest is the last in distance order")
	}
	verifReach("end")
}

func VerifC18_KNearest_3_2() { verifC18KNearest(3, 2) }

// Equal-distance ties: the same node ID on two addresses (another port of the same host, or another
// host) plus a third element with an arbitrary ID, pushed in every order into a container of size 2:
// it holds two elements, none of the dropped ones is strictly closer than a retained one, and when the
// third element is farther both tied elements are retained.
func VerifC18_KNearestTies() {
	target := verifID()
	var id, id2 krpc.ID
	verifFill(id[:])
	verifFill(id2[:])
	verifAssume(id != id2)
	mk := func(i krpc.ID, a string) k_nearest_nodes.Key {
		return k_nearest_nodes.Key{ID: i, Addr: krpc.NodeAddrPort{AddrPort: netip.MustParseAddrPort(a)}}
	}
	a := mk(id, "10.0.0.1:1")
	b := mk(id, []string{"10.0.0.1:2", "10.0.0.2:1"}[verifChoice(0, 1)])
	f := mk(id2, "10.0.0.3:1")
	orders := [][3]k_nearest_nodes.Key{{a, b, f}, {a, f, b}, {b, a, f}, {b, f, a}, {f, a, b}, {f, b, a}}
	c := k_nearest_nodes.New(target, 2)
	for _, k := range orders[verifChoice(0, 5)] {
		c = c.Push(k_nearest_nodes.Elem{Key: k})
	}
	verifAssert(c.Len() == 2 && c.Full(), "C18 knearest: three distinct keys fill a container of size 2")
	has := func(k k_nearest_nodes.Key) bool {
		found := false
		c.Range(func(e k_nearest_nodes.Elem) {
			if e.Key == k {
				found = true
			}
		})
		return found
	}
	fCloser := refDistLess(id2.Int160(), id.Int160(), target)
	if fCloser {
		verifAssert(has(f) && (has(a) != has(b)), "C18 knearest: the strictly closer element is retained together with one of the tied ones")
		verifReach("closer")
	} else {
		verifAssert(has(a) && has(b) && !has(f), "C18 knearest: two elements at equal distance that differ only in their address are both retained ahead of a farther one")
		verifReach("farther")
	}
	verifReach("end")
}
func VerifC18_KNearest_3_1() { verifC18KNearest(3, 1) }
func VerifC18_KNearest_4_2() { verifC18KNearest(4, 2) }
func VerifC18_KNearest_4_3() { verifC18KNearest(4, 3) }

// Push sequences with a repeated key: a key already held is pushed again into a full container, then a
// further element arrives. The container still holds exactly the K nearest of what was pushed.
func VerifC18_KNearestRepush() {
	var target int160.T
	const k = 2
	c := k_nearest_nodes.New(target, k)
	// three keys at arbitrary distances 0..255 from the target (ties included), distinct addresses
	mk := func(addr string) k_nearest_nodes.Key {
		var key k_nearest_nodes.Key
		key.ID[19] = verifNondetU8()
		key.Addr = krpc.NodeAddrPort{AddrPort: netip.MustParseAddrPort(addr)}
		return key
	}
	a, b, d := mk("10.0.0.1:1"), mk("10.0.0.2:1"), mk("10.0.0.3:1")
	seq := []k_nearest_nodes.Key{a, b}
	// the repeated key: a or b, whichever the run chooses
	if verifNondetBool() {
		seq = append(seq, a)
	} else {
		seq = append(seq, b)
	}
	seq = append(seq, d)
	for i, key := range seq {
		c = c.Push(k_nearest_nodes.Elem{Key: key, Data: i})
		if i >= 1 {
			verifAssert(c.Len() == k && c.Full(), "C18 knearest: re-pushing a held key leaves K elements")
		}
	}
	var got []k_nearest_nodes.Key
	c.Range(func(e k_nearest_nodes.Elem) { got = append(got, e.Key) })
	verifAssert(len(got) == k, "C18 knearest: exactly K retained")
	for _, key := range []k_nearest_nodes.Key{a, b, d} {
		kept := false
		for _, g := range got {
			if g == key {
				kept = true
			}
		}
		if !kept {
			for _, g := range got {
				verifAssert(!refDistLess(key.ID.Int160(), g.ID.Int160(), target), "C18 knearest: no dropped element is closer than a retained one")
			}
		}
	}
	verifReach("end")
}
