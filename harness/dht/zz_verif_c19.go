package dht

import (
	"context"
	"net"
	"time"

	"github.com/anacrolix/generics"
	"github.com/anacrolix/torrent/iplist"

	"github.com/anacrolix/dht/v2/int160"
	"github.com/anacrolix/dht/v2/krpc"
	peer_store "github.com/anacrolix/dht/v2/peer-store"
)

// C19: blocklisted addresses and passive mode are honoured on every path.

func verifNewBlocklist() *verifBlocklist {
	bl := &verifBlocklist{}
	verifFill(bl.ip[:])
	return bl
}

// Any datagram from a blocked source has no effect at all.
func VerifC19_InboundBlocked() {
	bl := verifNewBlocklist()
	env := verifC10ServerOpt(verifSrvOpt{noSecurity: true, blocklist: bl})
	v := env.v
	v.lean = true
	verifFixTokenClock(v.s)
	src := verifUDPAddr()
	verifAssume(bl.blocks(src.IP))
	var m krpc.Msg
	if verifNondetBool() {
		m = verifInboundQuery(v, verifChoice(0, 3), []int{1}, src).m
	} else {
		m = krpc.Msg{Y: []string{"r", "e"}[verifChoice(0, 1)], T: verifSymString(1), R: &krpc.Return{ID: verifIDInBucket(v.id, 0)}}
	}
	v.sock.deliver(verifEncode(m, 60), src)
	verifAssert(v.sock.attempts == 0, "C19: nothing is sent in reaction to a datagram from a blocked address")
	verifAssert(v.s.NumNodes() == 0, "C19: a blocked source gets no routing-table entry")
	verifAssert(len(env.peers.adds) == 0 && env.store.puts == 0 && env.callbacks == 0, "C19: a blocked source stores nothing")
	verifReach("end")
}

// A query to a blocked address fails without a datagram; a reply from an address blocked after the
// query went out has no effect (the blocklist can be installed later).
func VerifC19_Outbound() {
	dst := verifC07Addrs[0]
	bl := &verifBlocklist{}
	copy(bl.ip[:], dst.IP.To16())
	late := verifNondetBool()
	o := verifSrvOpt{noSecurity: true}
	if !late {
		o.blocklist = bl
	}
	v := verifStartServer(o)
	// up to three sends: a block list installed between the first send and a resend stops the resends too
	p := verifStartQuery(v, context.Background(), dst, "ping", QueryInput{NumTries: verifChoice(1, 3)})
	if !late {
		verifAssert(!p.sent && v.sock.attempts == 0, "C19: no datagram is ever sent to a blocked address")
		verifAssert(p.done && p.res.Err != nil && p.outstanding() == 0, "C19: a query to a blocked address fails")
		verifReach("blocked-at-construction")
		return
	}
	if !p.sent {
		return
	}
	v.s.SetIPBlockList(bl)
	v.sock.deliver(verifEncode(verifReplyMsg(v, p.tid), 50), dst)
	verifAssert(!p.done, "C19: a response from an address blocked in the meantime does not complete the query")
	verifAssert(v.s.NumNodes() == 0, "C19: ... and adds no routing-table entry")
	// a second query to the now blocked address sends nothing
	attempts := v.sock.attempts
	q := verifStartQuery(v, context.Background(), dst, "find_node", QueryInput{})
	verifAssert(q.done && q.res.Err != nil && v.sock.attempts == attempts, "C19: once blocked, no further datagram goes to that address")
	verifFireTimers()
	verifQuiesce()
	verifFireTimers()
	verifQuiesce()
	verifAssert(v.sock.attempts == attempts, "C19: no resend of a query in flight goes to an address blocked in the meantime")
	verifAssert(p.done && p.res.Err != nil, "C19: the first query ends by time-out or by the refused resend")
	verifReach("blocked-later")
}

// Lookups never query blocked addresses: the node filter every built-in traversal uses rejects them.
func VerifC19_LookupFilter() {
	bl := verifNewBlocklist()
	v := verifStartServer(verifSrvOpt{noSecurity: true, blocklist: bl})
	ip := verifAnyIP()
	port := verifPort()
	var id krpc.ID
	verifFill(id[:])
	n := addrMaybeId{Addr: krpc.NodeAddr{IP: ip, Port: port}.ToNodeAddrPort()}
	if verifNondetBool() {
		n.Id = generics.Some(int160.FromByteArray(id))
	}
	ok := v.s.TraversalNodeFilter(n)
	if bl.blocks(n.Addr.IP()) {
		verifAssert(!ok, "C19: the lookup node filter rejects blocked addresses")
		verifReach("blocked")
	}
	if port == 0 {
		verifAssert(!ok, "C04: the lookup node filter rejects port zero")
	}
	verifReach("end")
}

// Passive nodes mark every query they send read-only (and answer nothing: see the C08 entry).
func VerifC19_PassiveReadOnly() {
	passive := verifNondetBool()
	v := verifStartServer(verifSrvOpt{noSecurity: true, passive: passive, peerStore: &peer_store.InMemory{}})
	dst := &net.UDPAddr{IP: net.IP{10, 0, 0, 7}, Port: 7007}
	q := []string{"ping", "find_node", "get_peers", "announce_peer", "get", "put"}[verifChoice(0, 5)]
	before := len(v.sock.sent)
	go func() {
		addr := NewAddr(dst)
		var id int160.T
		switch q {
		case "ping":
			v.s.Ping(dst)
		case "find_node":
			v.s.FindNode(addr, id, QueryRateLimiting{})
		case "get_peers":
			v.s.GetPeers(context.Background(), addr, id, false, QueryRateLimiting{})
		case "announce_peer":
			v.s.announcePeer(context.Background(), addr, id, 6881, "tok", false, QueryRateLimiting{})
		case "get":
			v.s.Get(context.Background(), addr, id.AsByteArray(), nil, QueryRateLimiting{})
		case "put":
			v.s.Query(context.Background(), addr, "put", QueryInput{})
		}
	}()
	verifQuiesce()
	for _, w := range v.sock.sent[before:] {
		verifAssert(w.ok && w.msg.Y == "q" && w.msg.Q == q, "C19: the API sends the query it names")
		verifAssert(w.msg.ReadOnly == passive, "C19: queries are marked read-only exactly when the node is passive")
		verifReach("sent")
	}
	verifFireTimers()
	verifQuiesce()
	verifReach("end")
}

func VerifC19_MustFail() {
	bl := verifNewBlocklist()
	v := verifStartServer(verifSrvOpt{noSecurity: true, blocklist: bl})
	src := verifUDPAddr4()
	m := krpc.Msg{Q: "ping", Y: "q", T: "aa", A: &krpc.MsgArgs{ID: verifIDInBucket(v.id, 0)}}
	v.sock.deliver(verifEncode(m, 60), src)
	verifAssert(v.sock.attempts == 0, "twin: with a blocklist installed nobody is answered (must fail)")
}

// The real iplist.IPList (range search of anacrolix/torrent/iplist, not the harness list): two ranges,
// an arbitrary IPv4 source. A ping is answered exactly when the source lies in neither range, and a
// blocked source leaves no trace.
func VerifC19_RealRangeList() {
	verifLimiterAlwaysGrants()
	list := iplist.New([]iplist.Range{
		// IPv4 ranges in the 4-byte form the list's own parser produces
		{First: net.IP{10, 0, 0, 0}, Last: net.IP{10, 0, 0, 255}, Description: "a"},
		{First: net.IP{192, 0, 2, 16}, Last: net.IP{192, 0, 2, 31}, Description: "b"},
	})
	v := verifStartServer(verifSrvOpt{noSecurity: true, blocklist: list})
	src := verifUDPAddr4()
	ip := src.IP
	inA := ip[0] == 10 && ip[1] == 0 && ip[2] == 0
	inB := ip[0] == 192 && ip[1] == 0 && ip[2] == 2 && ip[3] >= 16 && ip[3] <= 31
	qid := verifIDInBucket(v.id, 0)
	verifAssume(!qid.IsZero())
	m := krpc.Msg{Q: "ping", Y: "q", T: "aa", A: &krpc.MsgArgs{ID: qid}}
	v.sock.deliver(verifEncode(m, 60), src)
	if inA || inB {
		verifAssert(v.sock.attempts == 0 && v.s.NumNodes() == 0, "C19: a source inside a blocklist range gets no reply and no table entry")
		verifReach("blocked")
	} else {
		verifAssert(len(v.sock.sent) == 1 && v.s.NumNodes() == 1, "C19: a source outside every range is served")
		verifReach("served")
	}
	verifReach("end")
}

// Table maintenance (TableMaintainer: Bootstrap over the table's own contacts, pings of questionable
// contacts, bucket refresh lookups) with a contact whose address was blocked after it had entered the
// table, on an active or a passive node: nothing is ever written to the blocked address, the other
// contact is still worked with, and on a passive node every query written is marked read-only.
func VerifC19_Maintenance() {
	verifLimiterAlwaysGrants()
	passive := verifNondetBool()
	v := verifStartServer(verifSrvOpt{noSecurity: true, concreteID: true, passive: passive})
	verifFreezeClock(true)
	states := []int{verifGood, verifStale}
	var contacts []verifContact
	// (TableMaintainer works on the first bucket that is not full and good, i.e. bucket 0 here: the
	// questionable-contact pings are reached only for a contact of that bucket)
	for i, b := range []int{0, 3} {
		c := verifContact{
			state: states[verifChoice(0, 1)], bucket: b,
			id:   verifConcreteIDInBucket(v.id, b, byte(i+1)),
			addr: &net.UDPAddr{IP: net.IP{198, 51, 100, byte(10 + i)}, Port: 2000 + i},
		}
		verifAddContact(v, c)
		contacts = append(contacts, c)
	}
	blocked := contacts[verifChoice(0, 1)]
	bl := &verifBlocklist{}
	copy(bl.ip[:], blocked.addr.IP.To16())
	v.s.SetIPBlockList(bl)
	if verifNondetBool() {
		v.s.mu.Lock()
		v.s.lastBootstrap = time.Now()
		v.s.mu.Unlock()
	}
	done := false
	go func() {
		v.s.TableMaintainer()
		done = true
	}()
	verifQuiesce()
	for i := 0; i < 3 && !done && verifFireTimers() > 0; i++ {
		verifQuiesce()
	}
	v.s.Close()
	verifQuiesce()
	for i := 0; i < 8 && !done && verifFireTimers() > 0; i++ {
		verifQuiesce()
	}
	verifAssert(done, "C14: TableMaintainer returns once the server is closed")
	other := 0
	for _, w := range v.sock.sent {
		u, ok := w.addr.(*net.UDPAddr)
		if !ok {
			continue
		}
		verifAssert(!verifSameIP16(u.IP, blocked.addr.IP), "C19: table maintenance never writes to a blocked address")
		if w.msg.Y == "q" {
			other++
			if passive {
				verifAssert(w.msg.ReadOnly, "C19: every query a passive node sends during table maintenance is marked read-only")
			}
		}
	}
	if other > 0 {
		verifReach("worked")
	}
	verifReach("end")
}
