package dht

import (
	"context"
	"net"
)

// C19 on the outbound query path with every rate-limiting configuration a caller can pass: a query
// to a blocked address (list installed at construction or after a first query) writes nothing,
// whichever of NotFirst / NotAny / WaitOnRetries / NoWaitFirst are set and however many tries it has.
func VerifC19_OutboundAnyRating() {
	dst := verifC07Addrs[0]
	bl := &verifBlocklist{}
	copy(bl.ip[:], dst.IP.To16())
	late := verifNondetBool()
	o := verifSrvOpt{noSecurity: true}
	if !late {
		o.blocklist = bl
	}
	v := verifStartServer(o)
	if late {
		v.s.SetIPBlockList(bl)
	}
	in := QueryInput{NumTries: verifChoice(1, 2)}
	in.RateLimiting = QueryRateLimiting{NotFirst: verifNondetBool(), NotAny: verifNondetBool(), WaitOnRetries: verifNondetBool(), NoWaitFirst: verifNondetBool()}
	p := verifStartQuery(v, context.Background(), dst, []string{"ping", "find_node"}[verifChoice(0, 1)], in)
	for i := 0; i < 4 && !p.done; i++ {
		verifFireTimers()
		verifQuiesce()
	}
	verifAssert(v.sock.attempts == 0 && !p.sent, "C19: no datagram is ever sent to a blocked address, whatever the query's rate-limiting options")
	verifAssert(p.done && p.res.Err != nil && p.outstanding() == 0, "C19: a query to a blocked address fails and leaves nothing pending")
	// an unblocked address on the same server is still reachable
	other := &net.UDPAddr{IP: net.IP{10, 0, 0, 2}, Port: 6881}
	q := verifStartQuery(v, context.Background(), other, "ping", QueryInput{RateLimiting: QueryRateLimiting{NotAny: true}})
	verifAssert(q.sent, "C19 harness: an unrated query to an unblocked address is written")
	verifFireTimers()
	verifQuiesce()
	verifReach("end")
}
