package dht

import (
	"context"
	"net"
	"time"

	"github.com/anacrolix/dht/v2/krpc"
)

// C20: every datagram subject to rate limiting is paid for with one token of the configured limiter.
// The limiter's own arithmetic (x/time/rate, floating point over time) is not encoded: its Allow/Wait
// return arbitrary outcomes, and grants, denials and returned tokens are counted. The obligation
// checked here is the library's side of the budget: a rated write reaches the socket only after a
// grant, a token is handed back only for a rated write that failed, so that
//     rated datagrams on the wire <= grants - returns     (<= burst + rate*window by the limiter's contract).

func verifBudget(v *verifSrv, rated []bool) {
	grants := verifEventCount("limiter.grant")
	returns := verifEventCount("limiter.return")
	ratedOut, ratedFailed := 0, 0
	for i, ok := range v.sock.results {
		if rated[i] {
			if ok {
				ratedOut++
			} else {
				ratedFailed++
			}
		}
	}
	verifAssert(ratedOut+ratedFailed <= grants, "C20: a rated write reaches the socket only after a token was granted")
	verifAssert(returns <= ratedFailed, "C20: a token is given back only for a rated write that failed")
	verifAssert(ratedOut <= grants-returns, "C20: rated datagrams on the wire never exceed tokens granted minus tokens returned")
}

// Replies and errors are always rated; dropped (or waiting, when configured) without budget.
func VerifC20_Replies() {
	wait := verifNondetBool()
	v := verifStartServer(verifSrvOpt{noSecurity: true, waitToReply: wait})
	v.lean = true
	verifFixTokenClock(v.s)
	v.sock.failMask = verifChoice(0, 1)
	src := verifUDPAddr4()
	q := verifInboundQuery(v, verifChoice(0, 3), []int{1}, src)
	v.sock.deliver(verifEncode(q.m, 60), src)
	rated := make([]bool, len(v.sock.results))
	for i := range rated {
		rated[i] = true
	}
	verifBudget(v, rated)
	if verifEventCount("limiter.grant") == 0 {
		verifAssert(v.sock.attempts == 0, "C20: a reply that cannot obtain budget is dropped")
		verifReach("dropped")
	}
	verifReach("end")
}

// Queries: every combination of the per-query rating policy, up to three tries, any pattern of
// failing socket writes, time passing between sends.
func VerifC20_Queries() {
	v := verifStartServer(verifSrvOpt{noSecurity: true})
	tries := verifChoice(1, 3)
	rl := QueryRateLimiting{NotFirst: verifNondetBool(), NotAny: verifNondetBool(), WaitOnRetries: verifNondetBool(), NoWaitFirst: verifNondetBool()}
	v.sock.failMask = verifChoice(0, 7)
	p := verifStartQuery(v, context.Background(), verifC07Addrs[0], "ping", QueryInput{NumTries: tries, RateLimiting: rl})
	for i := 0; i < tries+1 && !p.done; i++ {
		verifFireTimers()
		verifQuiesce()
	}
	verifAssert(p.done, "C14: the query returns")
	// which attempts were subject to rate limiting, by the documented policy
	rated := make([]bool, len(v.sock.results))
	wrote := 0
	for i, ok := range v.sock.results {
		rated[i] = !rl.NotAny && (wrote > 0 || !rl.NotFirst)
		if ok {
			wrote++
		}
	}
	verifBudget(v, rated)
	if !rl.NotAny && !rl.NotFirst && verifEventCount("limiter.grant") == 0 {
		verifAssert(v.sock.attempts == 0, "C20: a query that cannot obtain budget does not send")
		verifReach("refused")
	}
	_ = krpc.Msg{}
	verifReach("end")
}

func VerifC20_MustFail() {
	v := verifStartServer(verifSrvOpt{noSecurity: true})
	p := verifStartQuery(v, context.Background(), verifC07Addrs[0], "ping", QueryInput{RateLimiting: QueryRateLimiting{NotAny: true}})
	_ = p
	verifAssert(v.sock.attempts <= verifEventCount("limiter.grant"), "twin: even an opted-out query takes a token (must fail)")
}

// Table maintenance under an arbitrary limiter: TableMaintainer on a table with one questionable
// contact (pinged, three tries that wait for budget) and one good contact (bucket refresh / bootstrap
// lookups query it), nobody answers. Every datagram maintenance writes is rated; the limiter grants or
// refuses each acquisition arbitrarily (a refused Wait is a cancelled or failed wait). The budget
// obligation holds for the whole run.
func VerifC20_Maintenance() {
	v := verifStartServer(verifSrvOpt{noSecurity: true, concreteID: true})
	verifFreezeClock(true)
	for i, st := range []int{verifStale, verifGood} {
		b := 3 * i // bucket 0 is the one TableMaintainer pings and refreshes
		verifAddContact(v, verifContact{
			state: st, bucket: b,
			id:   verifConcreteIDInBucket(v.id, b, byte(i+1)),
			addr: &net.UDPAddr{IP: net.IP{198, 51, 100, byte(10 + i)}, Port: 2000 + i},
		})
	}
	v.s.mu.Lock()
	v.s.lastBootstrap = time.Now()
	v.s.mu.Unlock()
	done := false
	go func() {
		v.s.TableMaintainer()
		done = true
	}()
	verifQuiesce()
	for i := 0; i < 2 && !done && verifFireTimers() > 0; i++ {
		verifQuiesce()
	}
	v.s.Close()
	verifQuiesce()
	for i := 0; i < 8 && !done && verifFireTimers() > 0; i++ {
		verifQuiesce()
	}
	verifAssert(done, "C14: TableMaintainer returns once the server is closed")
	rated := make([]bool, len(v.sock.results))
	for i := range rated {
		rated[i] = true
	}
	verifBudget(v, rated)
	if v.sock.attempts > 0 {
		verifReach("wrote")
	}
	verifReach("end")
}
