package dht

import (
	"net"

	"github.com/anacrolix/dht/v2/krpc"
)

// C20 through the AddNode API: a node handed over without an ID is pinged to learn it; a caller of
// AddNode cannot opt out of rate limiting, so every such ping is paid for: with k such nodes and an
// arbitrary limiter the writes are all rated and the budget obligation holds; a ping that cannot
// obtain budget waits (or fails) rather than being written.
func VerifC20_AddNodePings() {
	v := verifStartServer(verifSrvOpt{noSecurity: true, concreteID: true})
	k := verifChoice(1, 2)
	for i := 0; i < k; i++ {
		err := v.s.AddNode(krpc.NodeInfo{Addr: krpc.NodeAddr{IP: net.IP{198, 51, 100, byte(10 + i)}, Port: 2000 + i}})
		_ = err
	}
	verifQuiesce()
	for i := 0; i < 3 && verifFireTimers() > 0; i++ {
		verifQuiesce()
	}
	rated := make([]bool, len(v.sock.results))
	for i := range rated {
		rated[i] = true
	}
	verifBudget(v, rated)
	if v.sock.attempts > 0 {
		verifReach("wrote")
	}
	if verifEventCount("limiter.grant") == 0 {
		verifAssert(v.sock.attempts == 0, "C20: a ping that cannot obtain budget is not written")
		verifReach("refused")
	}
	verifReach("end")
}
