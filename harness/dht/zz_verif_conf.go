package dht

import (
	"net"
	"time"

	"github.com/anacrolix/dht/v2/int160"
	"github.com/anacrolix/dht/v2/krpc"
)

// Translator validation: the repository's own test vectors are pushed through the engine (concrete
// inputs, real CRC-32C / SHA-1 in the host) and must give the outcomes the repository's tests expect.
// A mismatch here is an engine fault, never a finding about the code.

func verifHexID(s string) (id krpc.ID) {
	hexv := func(c byte) byte {
		switch {
		case c >= '0' && c <= '9':
			return c - '0'
		case c >= 'a' && c <= 'f':
			return c - 'a' + 10
		}
		return 0
	}
	for i := 0; i < 20; i++ {
		id[i] = hexv(s[2*i])<<4 | hexv(s[2*i+1])
	}
	return
}

// security_test.go TestDHTSec: the 13 (IP, ID, valid) vectors from BEP 42.
func VerifConf_DHTSec() {
	cases := []struct {
		ip    net.IP
		id    string
		valid bool
	}{
		{net.IP{124, 31, 75, 21}, "5fbfbff10c5d6a4ec8a88e4c6ab4c28b95eee401", true},
		{net.IP{21, 75, 31, 124}, "5a3ce9c14e7a08645677bbd1cfe7d8f956d53256", true},
		{net.IP{65, 23, 51, 170}, "a5d43220bc8f112a3d426c84764f8c2a1150e616", true},
		{net.IP{84, 124, 73, 14}, "1b0321dd1bb1fe518101ceef99462b947a01ff41", true},
		{net.IP{43, 213, 53, 83}, "e56f6cbf5b7c4be0237986d5243b87aa6d51305a", true},
		{net.IP{124, 31, 75, 21}, "5fbfbff10c5d7a4ec8a88e4c6ab4c28b95eee401", true},
		{net.IP{21, 75, 31, 124}, "5a3ce1c14e7a08645677bbd1cfe7d8f956d53256", false},
		{net.IP{65, 23, 51, 170}, "a5d43620bc8f112a3d426c84764f8c2a1150e616", true},
		{net.IP{84, 124, 73, 14}, "1b0321dd1bb1fe518101ceef99462b947a01fe01", true},
		{net.IP{43, 213, 53, 83}, "e56f6cbf5b7c4be0237986d5243b87aa6d51303e", false},
		{net.IP{10, 213, 53, 83}, "e56f6cbf5b7c4be0237986d5243b87aa6d51305a", true},
		{net.IP{12, 213, 53, 83}, "e56f6cbf5b7c4be0237986d5243b87aa6d51305a", false},
		{net.IP{192, 168, 53, 83}, "e56f6cbf5b7c4be0237986d5243b87aa6d51305a", true},
	}
	for _, c := range cases {
		id := verifHexID(c.id)
		for _, ip := range []net.IP{c.ip, c.ip.To16()} {
			verifAssert(NodeIdSecure(id, ip) == c.valid, "conformance: BEP 42 vector")
			id2 := id
			SecureNodeId(&id2, ip)
			verifAssert(NodeIdSecure(id2, ip), "conformance: a secured id verifies")
		}
	}
	verifReach("end")
}

// tokens_test.go TestTokenServer, with the injected clock.
func VerifConf_TokenServer() {
	addr1 := NewAddr(&net.UDPAddr{IP: []byte{1, 2, 3, 4}})
	addr2 := NewAddr(&net.UDPAddr{IP: []byte{1, 2, 3, 3}})
	now := time.Unix(1700000123, 456)
	cur := now
	ts := tokenServer{secret: []byte("42"), interval: 5 * time.Minute, maxIntervalDelta: 2, timeNow: func() time.Time { return cur }}
	tok := ts.CreateToken(addr1)
	verifAssert(len(tok) == 20, "conformance: token length")
	verifAssert(ts.ValidToken(tok, addr1), "conformance: own token valid")
	verifAssert(!ts.ValidToken(tok[1:], addr1), "conformance: truncated token invalid")
	verifAssert(!ts.ValidToken(tok, addr2), "conformance: other address invalid")
	ts0 := ts
	ts0.secret = nil
	verifAssert(!ts0.ValidToken(tok, addr1), "conformance: other secret invalid")
	cur = time.Time{}
	verifAssert(!ts.ValidToken(tok, addr1), "conformance: zero time invalid")
	cur = now.Add(-5 * time.Minute)
	verifAssert(!ts.ValidToken(tok, addr1), "conformance: before issue invalid")
	for i, want := range []bool{true, true, true, false} {
		cur = now.Add(time.Duration(i) * 5 * time.Minute)
		verifAssert(ts.ValidToken(tok, addr1) == want, "conformance: token window")
	}
	verifReach("end")
}

// dht_test.go TestMarshalCompactNodeInfo / TestDistances-style vectors and table_test.go TestTable.
func VerifConf_Misc() {
	cni := krpc.CompactIPv4NodeInfo{krpc.NodeInfo{ID: [20]byte{'a', 'b', 'c'}, Addr: krpc.NodeAddr{IP: net.IP{1, 2, 3, 4}, Port: 5}}}
	b, err := cni.MarshalBinary()
	want := make([]byte, 26)
	copy(want, "abc")
	copy(want[20:], "\x01\x02\x03\x04\x00\x05")
	verifAssert(err == nil && verifBytesEq(b, want), "conformance: compact node info bytes")
	var x, y int160.T
	x.SetBytes(append(make([]byte, 19), 3))
	y.SetBytes(append(make([]byte, 19), 5))
	d := int160.Distance(x, y)
	verifAssert(d.BitLen() == 3 && d.Cmp(x) > 0, "conformance: xor distance 3^5 = 6")
	var max int160.T
	max.SetMax()
	verifAssert(max.BitLen() == 160, "conformance: BitLen of the maximum")
	tbl := table{k: 8}
	var maxID int160.T
	maxID.SetMax()
	verifAssert(tbl.bucketIndex(maxID) == 0, "conformance: bucket index of the farthest id (TestTable)")
	id0 := int160.FromByteString("\x2f" + zeroIDStr[1:])
	id1 := int160.FromByteString("\x2e" + zeroIDStr[1:])
	n0 := &node{nodeKey: nodeKey{Id: id0, Addr: NewAddr(&net.UDPAddr{IP: net.IP{1, 1, 1, 1}, Port: 1})}}
	n1 := &node{nodeKey: nodeKey{Id: id1, Addr: NewAddr(&net.UDPAddr{IP: net.IP{1, 1, 1, 1}, Port: 2})}}
	verifAssert(tbl.addNode(n0) == nil && tbl.addNode(n1) == nil && tbl.numNodes() == 2, "conformance: two nodes in one bucket")
	verifAssert(tbl.addNode(n0) != nil, "conformance: duplicate refused")
	tbl.dropNode(n0)
	tbl.dropNode(n1)
	verifAssert(tbl.numNodes() == 0, "conformance: dropped")
	verifReach("end")
}

const zeroIDStr = "\x00\x00\x00\x00\x00\x00\x00\x00\x00\x00\x00\x00\x00\x00\x00\x00\x00\x00\x00\x00"
