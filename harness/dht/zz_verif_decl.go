package dht

import "github.com/anacrolix/dht/v2/krpc"

// Engine-only declaration (no body): the value a buffer produced by the bencode stub stands for.
// The native build uses zz_verif_native.go instead.
func verifDecodeMsg(b []byte) (krpc.Msg, bool)
