package dht

// Shared harness kit for package dht: fake socket, symbolic addresses.

import (
	"net"
	"time"
)

// verifWrite is one datagram handed to the fake socket.
type verifWrite struct {
	b    []byte
	addr net.Addr
}

// verifConn is the harness's net.PacketConn: it records writes and returns harness-chosen results.
type verifConn struct {
	local    net.Addr
	writes   []verifWrite
	failNext int  // fail the i-th WriteTo from now (1-based); 0 = never
	short    bool // short write on the failing position instead of an error
	nWrites  int
	closed   bool
	reads    []verifRead
}

type verifRead struct {
	b    []byte
	n    int
	addr net.Addr
	err  error
}

type verifErr struct{ s string }

func (e verifErr) Error() string { return e.s }

func (c *verifConn) ReadFrom(p []byte) (int, net.Addr, error) {
	if len(c.reads) == 0 {
		return 0, nil, verifErr{"verifConn: no more datagrams"}
	}
	r := c.reads[0]
	c.reads = c.reads[1:]
	if r.err != nil {
		return 0, nil, r.err
	}
	n := copy(p, r.b)
	if r.n >= 0 {
		n = r.n
	}
	return n, r.addr, nil
}

func (c *verifConn) WriteTo(p []byte, addr net.Addr) (int, error) {
	c.nWrites++
	if c.failNext != 0 && c.nWrites == c.failNext {
		if c.short {
			c.writes = append(c.writes, verifWrite{p, addr})
			return len(p) - 1, nil
		}
		return 0, verifErr{"verifConn: write failed"}
	}
	c.writes = append(c.writes, verifWrite{p, addr})
	return len(p), nil
}

func (c *verifConn) Close() error                       { c.closed = true; return nil }
func (c *verifConn) LocalAddr() net.Addr                { return c.local }
func (c *verifConn) SetDeadline(t time.Time) error      { return nil }
func (c *verifConn) SetReadDeadline(t time.Time) error  { return nil }
func (c *verifConn) SetWriteDeadline(t time.Time) error { return nil }

func verifNewConn() *verifConn {
	return &verifConn{local: &net.UDPAddr{IP: net.IP{127, 0, 0, 1}, Port: 4444}}
}

func verifIP4() net.IP {
	ip := make(net.IP, 4)
	verifFill(ip)
	return ip
}

func verifIP16() net.IP {
	ip := make(net.IP, 16)
	verifFill(ip)
	return ip
}

// verifMapped is the v4-mapped 16-byte form around four fresh bytes.
func verifMapped() net.IP {
	ip := make(net.IP, 16)
	ip[10], ip[11] = 0xff, 0xff
	verifFill(ip[12:])
	return ip
}

// verifAnyIP: 4 fresh bytes, 16 fresh bytes, or the mapped pattern.
func verifAnyIP() net.IP {
	switch verifChoice(0, 2) {
	case 0:
		return verifIP4()
	case 1:
		return verifIP16()
	}
	return verifMapped()
}

// verifAddr builds a dht.Addr with the given IP and a fresh port, without going through the string
// form (the label stands in for Addr.String(), which is only used as a map key and in log text).
func verifAddr(ip net.IP, port int, label string) Addr {
	return cachedAddr{raw: &net.UDPAddr{IP: ip, Port: port}, port: port, ip: ip, s: label}
}

func verifPort() int { return int(verifNondetU16()) }
