package dht

import (
	"github.com/anacrolix/torrent/bencode"

	"github.com/anacrolix/dht/v2/krpc"
)

// Native replay only: decode what was written to the fake socket with the real decoder.
func verifDecodeMsg(b []byte) (m krpc.Msg, ok bool) {
	err := bencode.Unmarshal(b, &m)
	return m, err == nil
}
