package dht

// Server-level harness kit: a real Server (real NewServer, real serve loop) on a fake socket whose
// ReadFrom is fed by the harness; arbitrary decoded KRPC messages travel as snapshots (verifEncode).

import (
	"net"
	"time"

	"github.com/anacrolix/torrent/iplist"
	"github.com/anacrolix/torrent/metainfo"
	"golang.org/x/time/rate"

	"github.com/anacrolix/dht/v2/bep44"
	"github.com/anacrolix/dht/v2/krpc"
	peer_store "github.com/anacrolix/dht/v2/peer-store"
)

type verifDatagram struct {
	b    []byte
	n    int // reported length; <0: len(b)
	addr net.Addr
}

type verifSent struct {
	b    []byte
	addr net.Addr
	msg  krpc.Msg
	ok   bool // msg decoded
}

// verifSock is the harness's net.PacketConn.
type verifSock struct {
	local     net.Addr
	in        chan verifDatagram
	sent      []verifSent
	attempts  int  // WriteTo calls
	failWrite int  // the i-th WriteTo (1-based) fails; 0 = never
	failAll   bool // every WriteTo fails
	shortAt   int  // the i-th WriteTo reports a short write
	closed    bool
	closedCh  chan struct{}
	results   []bool // per WriteTo call: did it succeed
	failMask  int    // bit i set: the (i+1)-th WriteTo fails
	triedT    []string // transaction id of every datagram handed to WriteTo, written or not
}

func verifNewSock() *verifSock {
	return &verifSock{
		local:    &net.UDPAddr{IP: net.IP{10, 0, 0, 1}, Port: 4444},
		in:       make(chan verifDatagram),
		closedCh: make(chan struct{}),
	}
}

func (c *verifSock) ReadFrom(p []byte) (int, net.Addr, error) {
	verifDaemon()
	select {
	case d := <-c.in:
		n := copy(p, d.b)
		if d.n >= 0 {
			n = d.n
		}
		return n, d.addr, nil
	case <-c.closedCh:
		return 0, nil, net.ErrClosed
	}
}

func (c *verifSock) WriteTo(p []byte, addr net.Addr) (int, error) {
	c.attempts++
	if tm, tok := verifDecodeMsg(p); tok {
		c.triedT = append(c.triedT, tm.T)
	}
	if c.failAll || (c.failWrite != 0 && c.attempts == c.failWrite) || c.failMask>>(uint(c.attempts)-1)&1 != 0 {
		c.results = append(c.results, false)
		return 0, verifErr{"verifSock: write failed"}
	}
	c.results = append(c.results, true)
	m, ok := verifDecodeMsg(p)
	c.sent = append(c.sent, verifSent{b: p, addr: addr, msg: m, ok: ok})
	if c.shortAt != 0 && c.attempts == c.shortAt {
		return len(p) - 1, nil
	}
	return len(p), nil
}

func (c *verifSock) Close() error {
	if !c.closed {
		c.closed = true
		close(c.closedCh)
	}
	return nil
}
func (c *verifSock) LocalAddr() net.Addr                { return c.local }
func (c *verifSock) SetDeadline(t time.Time) error      { return nil }
func (c *verifSock) SetReadDeadline(t time.Time) error  { return nil }
func (c *verifSock) SetWriteDeadline(t time.Time) error { return nil }

// deliver hands one datagram to the serve loop and lets the node run until nothing more can happen.
func (c *verifSock) deliver(b []byte, from net.Addr) {
	select {
	case c.in <- verifDatagram{b: b, n: -1, addr: from}:
	case <-c.closedCh: // a closed socket receives nothing
	}
	verifQuiesce()
}

// verifBlocklist blocks exactly the addresses whose 16-byte form equals one arbitrary address.
type verifBlocklist struct {
	ip [16]byte
}

func (bl *verifBlocklist) Lookup(ip net.IP) (r iplist.Range, ok bool) {
	ip16 := ip.To16()
	if ip16 == nil {
		return
	}
	for i := range bl.ip {
		if ip16[i] != bl.ip[i] {
			return
		}
	}
	return iplist.Range{Description: "verif"}, true
}
func (bl *verifBlocklist) NumRanges() int { return 1 }

func (bl *verifBlocklist) blocks(ip net.IP) bool {
	_, ok := bl.Lookup(ip)
	return ok
}

type verifSrvOpt struct {
	passive     bool
	noSecurity  bool
	peerStore   peer_store.Interface
	onQuery     func(query *krpc.Msg, source net.Addr) bool
	onAnnounce  func(infoHash [20]byte, ip net.IP, port int, portOk bool)
	blocklist   iplist.Ranger
	waitToReply bool
	store       bep44.Store
	concreteID  bool // the node's own id is a fixed constant (entries with many table contacts)
}

type verifSrv struct {
	s    *Server
	sock *verifSock
	id   krpc.ID
	lean bool // generators fork on fewer alternatives (for entries whose subject is not the field values)
}

// verifStartServer runs the real NewServer (and with it the real serve loop) on a fake socket.
func verifStartServer(o verifSrvOpt) *verifSrv {
	sock := verifNewSock()
	var id krpc.ID
	verifFill(id[:])
	// the node's own ID: arbitrary with its top bit set (so that the bucket of the all-zero ID, whose
	// index is the number of leading zero bits of this ID, is decided; the XOR metric is translation invariant)
	verifAssume(id[0]&0x80 != 0)
	if o.concreteID {
		id = krpc.ID{0x9a, 0x51, 0x07, 0xc3, 0x6e, 0x18, 0xf0, 0x22, 0x4b, 0xd9, 0x35, 0x86, 0x0c, 0x7f, 0xe1, 0x5a, 0xb4, 0x29, 0x93, 0x6d}
	}
	cfg := &ServerConfig{
		NodeId:      id,
		Conn:        sock,
		Passive:     o.passive,
		NoSecurity:  o.noSecurity,
		PeerStore:   o.peerStore,
		OnQuery:     o.onQuery,
		IPBlocklist: o.blocklist,
		WaitToReply: o.waitToReply,
		Store:       o.store,
		Exp:         2 * time.Hour,
		SendLimiter: rate.NewLimiter(25, 25),
		DefaultWant: []krpc.Want{krpc.WantNodes, krpc.WantNodes6},
	}
	if o.onAnnounce != nil {
		f := o.onAnnounce
		cfg.OnAnnouncePeer = func(ih metainfo.Hash, ip net.IP, port int, portOk bool) { f(ih, ip, port, portOk) }
	}
	s, err := NewServer(cfg)
	if err != nil {
		verifFail("NewServer failed on a supplied socket")
	}
	return &verifSrv{s: s, sock: sock, id: id}
}

// verifUDPAddr: an arbitrary source address (4-byte, 16-byte or v4-mapped IP, any non-zero port).
func verifUDPAddr() *net.UDPAddr {
	ip := verifAnyIP()
	port := verifPort()
	verifAssume(port != 0)
	return &net.UDPAddr{IP: ip, Port: port}
}

func verifUDPAddr4() *net.UDPAddr {
	port := verifPort()
	verifAssume(port != 0)
	return &net.UDPAddr{IP: verifIP4(), Port: port}
}

func verifSameUDP(a net.Addr, b *net.UDPAddr) bool {
	u, ok := a.(*net.UDPAddr)
	if !ok {
		return false
	}
	return u.Port == b.Port && verifBytesEq(u.IP, b.IP)
}

func verifBytesEq(a, b []byte) bool {
	if len(a) != len(b) {
		return false
	}
	eq := true
	for i := range a {
		eq = eq && a[i] == b[i]
	}
	return eq
}

var verifMethods = []string{"ping", "find_node", "get_peers", "announce_peer", "put", "get", "sample_infohashes", ""}

// verifMethod: one of the known method names, or an arbitrary string of 3, 4 or 9 bytes (which also
// covers the known names of those lengths), so every dispatch outcome is reachable.
func verifMethod() string {
	c := verifChoice(0, len(verifMethods)+2)
	switch {
	case c < len(verifMethods):
		return verifMethods[c]
	case c == len(verifMethods):
		return verifSymString(3)
	case c == len(verifMethods)+1:
		return verifSymString(4)
	}
	return verifSymString(9)
}

func verifTID() string {
	return verifSymString(verifChoice(0, 3))
}

func verifWant() []krpc.Want {
	switch verifChoice(0, 5) {
	case 0:
		return nil
	case 1:
		return []krpc.Want{krpc.WantNodes}
	case 2:
		return []krpc.Want{krpc.WantNodes6}
	case 3:
		return []krpc.Want{krpc.WantNodes, krpc.WantNodes6}
	case 4:
		return []krpc.Want{krpc.Want(verifSymString(2))}
	}
	return []krpc.Want{}
}

// verifArgs: an arbitrary argument dictionary (every optional field present or absent).
func verifArgs() *krpc.MsgArgs {
	a := &krpc.MsgArgs{}
	verifFill(a.ID[:])
	verifFill(a.InfoHash[:])
	verifFill(a.Target[:])
	a.Token = verifSymString(verifChoice(0, 1) * 20)
	if verifNondetBool() {
		p := int(verifNondetI64())
		a.Port = &p
	}
	a.ImpliedPort = verifNondetBool()
	a.Want = verifWant()
	if verifNondetBool() {
		sq := verifNondetI64()
		a.Seq = &sq
	}
	a.Cas = verifNondetI64()
	if verifNondetBool() {
		a.V = verifSymString(2)
	}
	return a
}

// verifPeerID: an arbitrary contact ID whose shared prefix with the server's ID has one of a few
// lengths (so that the bucket array index is decided per path), or the server's own ID, or zero.
func verifPeerID(root krpc.ID, prefixes []int, special bool) (id krpc.ID) {
	hi := len(prefixes) - 1
	if special {
		hi += 2
	}
	c := verifChoice(0, hi)
	switch {
	case c == len(prefixes):
		return root
	case c == len(prefixes)+1:
		return krpc.ID{}
	}
	return verifIDInBucket(root, prefixes[c])
}

// verifIDInBucket: an arbitrary ID sharing exactly p leading bits with root.
func verifIDInBucket(root krpc.ID, p int) (id krpc.ID) {
	var d [20]byte
	verifFill(d[:])
	for i := 0; i < p/8; i++ {
		verifAssume(d[i] == 0)
	}
	top := d[p/8]
	verifAssume(top>>(7-uint(p%8)) == 1)
	for i := range id {
		id[i] = root[i] ^ d[i]
	}
	return
}

// verifConcreteIDInBucket: a fixed ID sharing exactly p leading bits with root (distinct per salt).
func verifConcreteIDInBucket(root krpc.ID, p int, salt byte) (id krpc.ID) {
	id = root
	id[p/8] ^= 0x80 >> uint(p%8)
	id[19] ^= salt
	id[18] ^= 0x5c
	return
}
