package getput

import (
	"context"
	"crypto/ed25519"
	"crypto/sha1"
	"net"
	"strconv"
	"time"

	"github.com/anacrolix/torrent/bencode"
	"golang.org/x/time/rate"

	"github.com/anacrolix/dht/v2"
	"github.com/anacrolix/dht/v2/bep44"
	"github.com/anacrolix/dht/v2/krpc"
)

// C12 (client side) / C14 / C01: the get traversal of exts/getput on a real dht.Server over a fake
// socket, with the harness playing the remote nodes. Only the exported API of package dht is used.

func verifDecodeMsg(b []byte) (krpc.Msg, bool)

type verifGPWrite struct {
	addr net.Addr
	msg  krpc.Msg
	ok   bool
}

type verifGPSock struct {
	in     chan verifGPDatagram
	closed chan struct{}
	sent   []verifGPWrite
}

type verifGPDatagram struct {
	b    []byte
	addr net.Addr
}

type verifGPErr struct{ s string }

func (e verifGPErr) Error() string { return e.s }

func (c *verifGPSock) ReadFrom(p []byte) (int, net.Addr, error) {
	verifDaemon()
	select {
	case d := <-c.in:
		return copy(p, d.b), d.addr, nil
	case <-c.closed:
		return 0, nil, net.ErrClosed
	}
}

func (c *verifGPSock) WriteTo(p []byte, addr net.Addr) (int, error) {
	m, ok := verifDecodeMsg(p)
	c.sent = append(c.sent, verifGPWrite{addr: addr, msg: m, ok: ok})
	return len(p), nil
}
func (c *verifGPSock) Close() error                       { return nil }
func (c *verifGPSock) LocalAddr() net.Addr                { return &net.UDPAddr{IP: net.IP{10, 0, 0, 1}, Port: 4444} }
func (c *verifGPSock) SetDeadline(t time.Time) error      { return nil }
func (c *verifGPSock) SetReadDeadline(t time.Time) error  { return nil }
func (c *verifGPSock) SetWriteDeadline(t time.Time) error { return nil }

func (c *verifGPSock) deliver(m krpc.Msg, from net.Addr) {
	c.in <- verifGPDatagram{b: verifEncode(m, 90), addr: from}
	verifQuiesce()
}

func verifGPServer(starting func() ([]dht.Addr, error)) (*dht.Server, *verifGPSock) {
	verifLimiterAlwaysGrants()
	sock := &verifGPSock{in: make(chan verifGPDatagram), closed: make(chan struct{})}
	s, err := dht.NewServer(&dht.ServerConfig{
		NodeId:        krpc.ID{0x9a, 0x51, 0x07, 0xc3, 0x6e, 0x18, 0xf0, 0x22, 0x4b, 0xd9, 0x35, 0x86, 0x0c, 0x7f, 0xe1, 0x5a, 0xb4, 0x29, 0x93, 0x6d},
		Conn:          sock,
		NoSecurity:    true,
		StartingNodes: starting,
		SendLimiter:   rate.NewLimiter(25, 25),
		Exp:           2 * time.Hour,
	})
	if err != nil {
		verifFail("NewServer on a supplied socket")
	}
	verifFreezeClock(true)
	return s, sock
}

func verifGPBenc(s []byte) []byte { return append([]byte(strconv.Itoa(len(s))+":"), s...) }

func verifGPSigned(salt []byte, seq int64, v []byte) []byte {
	var m []byte
	if len(salt) != 0 {
		m = append(m, "4:salt"...)
		m = append(m, verifGPBenc(salt)...)
	}
	m = append(m, ("3:seqi" + strconv.FormatInt(seq, 10) + "e1:v")...)
	return append(m, v...)
}

// Get / Put when the traversal cannot start (resolver error): they fail, and leave no goroutine behind.
func VerifGetput_CannotStart() {
	s, _ := verifGPServer(func() ([]dht.Addr, error) { return nil, verifGPErr{"resolver failed"} })
	var target krpc.ID
	target[0] = 7
	if verifNondetBool() {
		_, _, err := Get(context.Background(), target, s, nil, nil)
		verifAssert(err != nil, "C14: Get without starting nodes fails")
	} else {
		_, err := Put(context.Background(), target, s, nil, func(seq int64) bep44.Put { return bep44.Put{V: "x", Seq: seq} })
		verifAssert(err != nil, "C14: Put without starting nodes fails")
	}
	verifQuiesce()
	verifReach("end")
}

// A mutable get against two remote nodes that answer with arbitrary replies: matching or foreign key,
// seq present or absent, arbitrary signature, token present or absent. The caller gets only a value
// that verifies under the requested key and salt (the signature function applied to the buffer the
// harness builds independently), and among several the one with the highest sequence number.
func VerifGetput_MutableGet() {
	remotes := []*net.UDPAddr{{IP: net.IP{10, 7, 0, 1}, Port: 6001}, {IP: net.IP{10, 7, 0, 2}, Port: 6002}}
	s, sock := verifGPServer(func() ([]dht.Addr, error) {
		return []dht.Addr{dht.NewAddr(remotes[0]), dht.NewAddr(remotes[1])}, nil
	})
	var k [32]byte
	verifFill(k[:])
	verifAssume(k != [32]byte{1, 2, 3}) // the foreign key used below is a different key
	salt := make([]byte, verifChoice(0, 1))
	verifFill(salt)
	target := krpc.ID(sha1.Sum(append(append([]byte{}, k[:]...), salt...)))
	// keep the target out of the bucket walk of nobody (the client does not serve here)
	type reply struct {
		has, keyOK, seqOK, token bool
		seq                      int64
		v                        []byte
		sig                      [64]byte
	}
	var rs [2]reply
	for i := range rs {
		r := &rs[i]
		r.has = verifNondetBool()
		if !r.has {
			continue
		}
		r.keyOK = verifNondetBool()
		r.seqOK = verifNondetBool()
		r.token = verifNondetBool()
		r.seq = []int64{3, 9}[verifChoice(0, 1)]
		r.v = verifGPBenc([]byte{byte('a' + i), verifNondetU8()})
		verifFill(r.sig[:])
	}
	// the optional "I already have this seq" argument: absent, below every offered seq, or between them
	var seqArg *int64
	if c := verifChoice(0, 2); c > 0 {
		sq := []int64{1, 5}[c-1]
		seqArg = &sq
	}
	var res GetResult
	var gerr error
	done := false
	go func() {
		res, _, gerr = Get(context.Background(), target, s, seqArg, salt)
		done = true
	}()
	verifQuiesce()
	answered := 0
	for step := 0; step < 6 && !done; step++ {
		progressed := false
		for _, w := range sock.sent[answered:] {
			answered++
			if !w.ok || w.msg.Q != "get" {
				continue
			}
			i := 0
			if verifGPSame(w.addr, remotes[1]) {
				i = 1
			}
			r := rs[i]
			if !r.has {
				continue
			}
			ret := &krpc.Return{ID: krpc.ID{0x11, byte(i + 1)}}
			ret.V = bencode.Bytes(r.v)
			ret.Sig = r.sig
			if r.keyOK {
				ret.K = k
			} else {
				ret.K = [32]byte{1, 2, 3}
			}
			if r.seqOK {
				sq := r.seq
				ret.Seq = &sq
			}
			if r.token {
				t := "tk"
				ret.Token = &t
			}
			sock.deliver(krpc.Msg{Y: "r", T: w.msg.T, R: ret}, w.addr)
			progressed = true
			break
		}
		if !progressed {
			if verifFireTimers() == 0 {
				break
			}
			verifQuiesce()
		}
	}
	for i := 0; i < 4 && !done; i++ {
		verifFireTimers()
		verifQuiesce()
	}
	verifAssert(done, "C14: Get returns")
	// what may be handed to the caller
	valid := func(r reply) bool {
		return r.has && r.keyOK && r.seqOK && ed25519.Verify(k[:], verifGPSigned(salt, r.seq, r.v), r.sig[:])
	}
	if gerr == nil {
		okv := false
		for _, r := range rs {
			if valid(r) && res.Mutable && res.Seq == r.seq && string(res.V) == string(r.v) && res.Sig == r.sig {
				okv = true
			}
			// an immutable hit: the value itself hashes to the target
			if r.has && !res.Mutable && string(res.V) == string(r.v) && krpc.ID(sha1.Sum(r.v)) == target {
				okv = true
			}
		}
		verifAssert(!res.Mutable || ed25519.Verify(k[:], verifGPSigned(salt, res.Seq, []byte(res.V)), res.Sig[:]), "C12 direct: a mutable value handed to the caller verifies under the requested key and salt")
		verifObserve("ver0", ed25519.Verify(k[:], verifGPSigned(salt, rs[0].seq, rs[0].v), rs[0].sig[:]))
		verifObserve("saltlen", len(salt))
		verifObserve("valid0", valid(rs[0]))
		verifObserve("sigeq0", res.Sig == rs[0].sig)
		verifObserve("veq0", string(res.V) == string(rs[0].v))
		verifObserve("okv", okv)
		verifObserve("res.mut", res.Mutable)
		verifObserve("res.seq", res.Seq)
		verifObserve("res.v", string(res.V))
		verifObserve("r0.has", rs[0].has)
		verifObserve("r0.key", rs[0].keyOK)
		verifObserve("r0.seqok", rs[0].seqOK)
		verifObserve("r0.seq", rs[0].seq)
		verifObserve("r0.v", string(rs[0].v))
		verifObserve("r1.has", rs[1].has)
		verifObserve("r1.key", rs[1].keyOK)
		verifObserve("r1.seqok", rs[1].seqOK)
		verifObserve("r1.seq", rs[1].seq)
		verifObserve("r1.v", string(rs[1].v))
		verifAssert(okv, "C12: a get hands its caller only a value that hashes to the target or verifies under the requested key and salt")
		best := int64(-1 << 63)
		for _, r := range rs {
			if valid(r) && r.seq > best {
				best = r.seq
			}
		}
		if res.Mutable {
			verifAssert(res.Seq == best, "C12: among the verified values the one with the highest sequence number is returned")
		}
		verifReach("value")
	} else {
		for _, r := range rs {
			// (a value not newer than the seq the caller says it already has may be left out)
			verifAssert(!valid(r) || (seqArg != nil && r.seq <= *seqArg), "C12: a verified value that was received is not withheld from the caller")
		}
		verifReach("none")
	}
	for i := 0; i < 4 && verifFireTimers() > 0; i++ {
		verifQuiesce()
	}
	verifReach("end")
}

// getput.Put against two remote nodes: the get traversal (replies with or without token, with a value
// that verifies or not, seq present or absent), then the put queries to the closest set, which the
// remote nodes answer or let time out; optionally the caller cancels. Put returns, seqToPut is asked
// once with the highest verified sequence number seen (0 if none), every put datagram goes to a node
// that answered this traversal and carries the item seqToPut returned and - where that node supplied
// a token - that token; nothing is left pending or blocked (engine verdict).
func VerifGetput_Put() {
	remotes := []*net.UDPAddr{{IP: net.IP{10, 7, 0, 1}, Port: 6001}, {IP: net.IP{10, 7, 0, 2}, Port: 6002}}
	s, sock := verifGPServer(func() ([]dht.Addr, error) {
		return []dht.Addr{dht.NewAddr(remotes[0]), dht.NewAddr(remotes[1])}, nil
	})
	var k [32]byte
	verifFill(k[:])
	var salt []byte
	target := krpc.ID(sha1.Sum(append(append([]byte{}, k[:]...), salt...)))
	type reply struct {
		has, seqOK, token bool
		seq               int64
		v                 []byte
		sig               [64]byte
	}
	var rs [2]reply
	for i := range rs {
		r := &rs[i]
		r.has = verifNondetBool()
		if !r.has {
			continue
		}
		r.seqOK = verifNondetBool()
		r.token = verifNondetBool()
		r.seq = []int64{3, 9}[verifChoice(0, 1)]
		r.v = verifGPBenc([]byte{byte('a' + i)})
		// SHA-1 collision freeness: the 3-byte value does not hash to the target derived from the key
		verifAssume(krpc.ID(sha1.Sum(r.v)) != target)
		verifFill(r.sig[:])
	}
	valid := func(r reply) bool {
		return r.has && r.seqOK && ed25519.Verify(k[:], verifGPSigned(salt, r.seq, r.v), r.sig[:])
	}
	var newSig [64]byte
	verifFill(newSig[:])
	asked := 0
	var askedSeq int64
	ctx, cancel := context.WithCancel(context.Background())
	defer cancel()
	var perr error
	done := false
	go func() {
		_, perr = Put(ctx, target, s, salt, func(seq int64) bep44.Put {
			asked++
			askedSeq = seq
			// the caller signs the new version
			verifAssume(ed25519.Verify(k[:], verifGPSigned(salt, seq+1, verifGPBenc([]byte("nv"))), newSig[:]))
			return bep44.Put{V: "nv", K: &k, Salt: salt, Sig: newSig, Seq: seq + 1}
		})
		done = true
	}()
	verifQuiesce()
	answerPuts := verifNondetBool()
	cancelAt := verifChoice(-1, 1) // -1: never; else after that many answered datagrams
	answered := 0
	handled := 0
	gotReply := [2]bool{}
	for step := 0; step < 10 && !done; step++ {
		if cancelAt == handled {
			cancel()
			verifQuiesce()
			cancelAt = -1
			continue
		}
		progressed := false
		for _, w := range sock.sent[answered:] {
			answered++
			if !w.ok {
				continue
			}
			i := 0
			if verifGPSame(w.addr, remotes[1]) {
				i = 1
			}
			r := rs[i]
			if w.msg.Q == "get" {
				if !r.has {
					continue
				}
				ret := &krpc.Return{ID: krpc.ID{0x11, byte(i + 1)}}
				ret.K, ret.V, ret.Sig = k, bencode.Bytes(r.v), r.sig
				if r.seqOK {
					sq := r.seq
					ret.Seq = &sq
				}
				if r.token {
					t := "tk" + strconv.Itoa(i)
					ret.Token = &t
				}
				gotReply[i] = true
				handled++
				sock.deliver(krpc.Msg{Y: "r", T: w.msg.T, R: ret}, w.addr)
				progressed = true
				break
			}
			if w.msg.Q == "put" && answerPuts {
				handled++
				sock.deliver(krpc.Msg{Y: "r", T: w.msg.T, R: &krpc.Return{ID: krpc.ID{0x11, byte(i + 1)}}}, w.addr)
				progressed = true
				break
			}
		}
		if !progressed {
			if verifFireTimers() == 0 {
				break
			}
			verifQuiesce()
		}
	}
	for i := 0; i < 6 && !done; i++ {
		verifFireTimers()
		verifQuiesce()
	}
	verifAssert(done, "C14: Put returns")
	_ = perr
	verifAssert(asked <= 1, "C12: the item to put is asked for once")
	if asked == 1 {
		best := int64(0)
		for i, r := range rs {
			if valid(r) && gotReply[i] && r.seq > best {
				best = r.seq
			}
		}
		// (a reply may be missed when the caller cancels first: then the highest seen so far is lower)
		seen := false
		if askedSeq == 0 {
			seen = true
		}
		for i, r := range rs {
			if valid(r) && gotReply[i] && r.seq == askedSeq {
				seen = true
			}
		}
		verifAssert(seen, "C12: the sequence number handed to the putter is 0 or that of a verified value received in this traversal")
		if ctx.Err() == nil {
			verifAssert(askedSeq == best, "C12: ... and, when the traversal ran to its end, the highest of them")
		}
	}
	for _, w := range sock.sent {
		if !w.ok || w.msg.Q != "put" {
			continue
		}
		i := 0
		if verifGPSame(w.addr, remotes[1]) {
			i = 1
		}
		verifAssert(gotReply[i], "C14/C12: a put goes only to a node that answered this traversal")
		a := w.msg.A
		verifAssert(a != nil && a.K == k && a.Seq != nil && *a.Seq == askedSeq+1 && a.Sig == newSig, "C12: the put carries the item the caller supplied")
		if rs[i].token {
			verifAssert(a.Token == "tk"+strconv.Itoa(i), "C10: a node that supplied a write token is handed back exactly that token")
		}
		verifReach("put")
	}
	for i := 0; i < 4 && verifFireTimers() > 0; i++ {
		verifQuiesce()
	}
	verifAssert(s.Stats().OutstandingTransactions == 0, "C14: no pending transaction is left behind")
	verifReach("end")
}

func verifGPSame(a net.Addr, b *net.UDPAddr) bool {
	u, ok := a.(*net.UDPAddr)
	return ok && u.Port == b.Port
}

func VerifGetput_MustFail() {
	s, _ := verifGPServer(func() ([]dht.Addr, error) { return nil, verifGPErr{"resolver failed"} })
	_, _, err := Get(context.Background(), krpc.ID{1}, s, nil, nil)
	verifAssert(err == nil, "twin: Get without starting nodes succeeds (must fail)")
}
