package getput

import (
	"context"
	"crypto/sha1"
	"net"

	"github.com/anacrolix/torrent/bencode"

	"github.com/anacrolix/dht/v2"
	"github.com/anacrolix/dht/v2/krpc"
)

// C12 (client side, immutable): a get for the target SHA-1("1:a") against two remote nodes that answer
// with the genuine value, with another value, with a "mutable" item (key, seq, signature) whose
// key+salt does not hash to the target, or not at all, in either order. The caller gets the genuine
// value or nothing: never a value that does not hash to the target. All hashes are concrete here.
func VerifGetput_ImmutableGet() {
	remotes := []*net.UDPAddr{{IP: net.IP{10, 7, 0, 1}, Port: 6001}, {IP: net.IP{10, 7, 0, 2}, Port: 6002}}
	s, sock := verifGPServer(func() ([]dht.Addr, error) {
		return []dht.Addr{dht.NewAddr(remotes[0]), dht.NewAddr(remotes[1])}, nil
	})
	genuine := verifGPBenc([]byte("a"))
	target := krpc.ID(sha1.Sum(genuine))
	const (
		silent = iota
		right
		wrong
		mutableForeign
		empty
	)
	kinds := [2]int{verifChoice(0, 4), verifChoice(0, 4)}
	token := [2]bool{verifNondetBool(), verifNondetBool()}
	var res GetResult
	var gerr error
	done := false
	go func() {
		res, _, gerr = Get(context.Background(), target, s, nil, nil)
		done = true
	}()
	verifQuiesce()
	answered := 0
	sentRight := false
	for step := 0; step < 6 && !done; step++ {
		progressed := false
		for _, w := range sock.sent[answered:] {
			answered++
			if !w.ok || w.msg.Q != "get" {
				continue
			}
			i := 0
			if verifGPSame(w.addr, remotes[1]) {
				i = 1
			}
			if kinds[i] == silent {
				continue
			}
			ret := &krpc.Return{ID: krpc.ID{0x11, byte(i + 1)}}
			switch kinds[i] {
			case right:
				ret.V = bencode.Bytes(genuine)
				sentRight = true
			case wrong:
				wv := verifGPBenc([]byte{verifNondetU8(), 'x'})
				// SHA-1 collision freeness: another value does not hash to the target
				verifAssume(krpc.ID(sha1.Sum(wv)) != target)
				ret.V = bencode.Bytes(wv)
			case mutableForeign:
				ret.V = bencode.Bytes(verifGPBenc([]byte("m")))
				verifFill(ret.K[:])
				// SHA-1 collision freeness: the foreign key does not hash to the 3-byte value's digest
				verifAssume(krpc.ID(sha1.Sum(ret.K[:])) != target)
				verifFill(ret.Sig[:])
				sq := int64(verifChoice(0, 1))
				ret.Seq = &sq
			}
			if token[i] {
				t := "tk"
				ret.Token = &t
			}
			sock.deliver(krpc.Msg{Y: "r", T: w.msg.T, R: ret}, w.addr)
			progressed = true
			break
		}
		if !progressed {
			if verifFireTimers() == 0 {
				break
			}
			verifQuiesce()
		}
	}
	for i := 0; i < 4 && !done; i++ {
		verifFireTimers()
		verifQuiesce()
	}
	verifAssert(done, "C14: Get returns")
	if gerr == nil {
		verifAssert(!res.Mutable && string(res.V) == string(genuine), "C12: an immutable get hands its caller only the value that hashes to the target")
		verifAssert(sentRight, "C12: ... and only when some node sent it")
		verifReach("value")
	} else {
		verifAssert(!sentRight, "C12: a value that hashes to the target and was received is not withheld")
		verifReach("none")
	}
	for i := 0; i < 4 && verifFireTimers() > 0; i++ {
		verifQuiesce()
	}
	verifReach("end")
}
