package getput

import (
	"context"
	"crypto/sha1"
	"net"

	"github.com/anacrolix/torrent/bencode"

	"github.com/anacrolix/dht/v2"
	"github.com/anacrolix/dht/v2/krpc"
)

// C14 for an immutable get that finds its value on two nodes at once: both replies are handed to the
// socket back to back, so that the second query goroutine may already be holding its value when Get
// takes the first one and stops the traversal (every scheduling choice at blocking points, one
// preemption). Get returns the value; the other query goroutine is released by the stop; nothing is
// left pending or blocked (engine verdict).
func VerifGetput_ImmutableTwoHolders() {
	remotes := []*net.UDPAddr{{IP: net.IP{10, 7, 0, 1}, Port: 6001}, {IP: net.IP{10, 7, 0, 2}, Port: 6002}}
	s, sock := verifGPServer(func() ([]dht.Addr, error) {
		return []dht.Addr{dht.NewAddr(remotes[0]), dht.NewAddr(remotes[1])}, nil
	})
	genuine := verifGPBenc([]byte("a"))
	target := krpc.ID(sha1.Sum(genuine))
	var res GetResult
	var gerr error
	done := false
	go func() {
		res, _, gerr = Get(context.Background(), target, s, nil, nil)
		done = true
	}()
	verifQuiesce()
	var replies []verifGPDatagram
	for _, w := range sock.sent {
		if !w.ok || w.msg.Q != "get" {
			continue
		}
		i := 0
		if verifGPSame(w.addr, remotes[1]) {
			i = 1
		}
		ret := &krpc.Return{ID: krpc.ID{0x11, byte(i + 1)}}
		ret.V = bencode.Bytes(genuine)
		t := "tk"
		ret.Token = &t
		replies = append(replies, verifGPDatagram{b: verifEncode(krpc.Msg{Y: "r", T: w.msg.T, R: ret}, 90), addr: w.addr})
	}
	verifAssert(len(replies) == 2, "C14 harness: both starting nodes are asked")
	for _, d := range replies {
		sock.in <- d
	}
	verifQuiesce()
	for i := 0; i < 4 && !done; i++ {
		verifFireTimers()
		verifQuiesce()
	}
	verifAssert(done && gerr == nil && string(res.V) == string(genuine), "C12/C14: Get returns the value")
	for i := 0; i < 4 && verifFireTimers() > 0; i++ {
		verifQuiesce()
	}
	verifAssert(s.Stats().OutstandingTransactions == 0, "C14: no pending transaction is left behind")
	verifReach("end")
}
