package krpc

import "net"

// C15 (binary codecs): NodeAddr / NodeInfo and the compact lists.

func verifBytes(n int) []byte {
	b := make([]byte, n)
	verifFill(b)
	return b
}

func verifSameBytes(a, b []byte) bool {
	if len(a) != len(b) {
		return false
	}
	for i := range a {
		if a[i] != b[i] {
			return false
		}
	}
	return true
}

// NodeAddr: L >= 2 decodes to (IP = first L-2 bytes, big-endian port), L < 2 is an error; re-encoding
// reproduces the input bytes.
func VerifC15_NodeAddr() {
	n := verifChoice(0, 20)
	b := verifBytes(n)
	orig := append([]byte(nil), b...)
	var na NodeAddr
	err := na.UnmarshalBinary(b)
	if n < 2 {
		verifAssert(err != nil, "C15 NodeAddr: fewer than 2 bytes is an error")
		verifReach("short")
		return
	}
	verifAssert(err == nil, "C15 NodeAddr: >= 2 bytes decodes")
	verifAssert(len(na.IP) == n-2, "C15 NodeAddr: IP is the first L-2 bytes")
	verifAssert(verifSameBytes(na.IP, orig[:n-2]), "C15 NodeAddr: IP bytes")
	verifAssert(na.Port == int(orig[n-2])<<8|int(orig[n-1]), "C15 NodeAddr: big-endian port")
	out, err := na.MarshalBinary()
	verifAssert(err == nil, "C15 NodeAddr: re-encode succeeds")
	verifAssert(verifSameBytes(out, orig), "C15 NodeAddr: re-encode is the identity")
	verifReach("end")
}

// NodeInfo: no input length may panic; L >= 22 decodes (id, ip, port) and re-encodes identically;
// shorter inputs are an error.
func VerifC15_NodeInfo() {
	n := verifChoice(0, 40)
	b := verifBytes(n)
	orig := append([]byte(nil), b...)
	var ni NodeInfo
	err := ni.UnmarshalBinary(b)
	if n < 22 {
		verifAssert(err != nil, "C15 NodeInfo: fewer than 22 bytes is an error")
		verifReach("short")
		return
	}
	verifAssert(err == nil, "C15 NodeInfo: >= 22 bytes decodes")
	verifAssert(verifSameBytes(ni.ID[:], orig[:20]), "C15 NodeInfo: id bytes")
	verifAssert(verifSameBytes(ni.Addr.IP, orig[20:n-2]), "C15 NodeInfo: IP bytes")
	verifAssert(ni.Addr.Port == int(orig[n-2])<<8|int(orig[n-1]), "C15 NodeInfo: big-endian port")
	out, err := ni.MarshalBinary()
	verifAssert(err == nil, "C15 NodeInfo: re-encode succeeds")
	verifAssert(verifSameBytes(out, orig), "C15 NodeInfo: re-encode is the identity")
	verifReach("end")
}

// ---- compact lists: decode exactly the multiples of the entry size, re-encode identically ----

type verifCompact interface {
	UnmarshalBinary([]byte) error
	MarshalBinary() ([]byte, error)
	ElemSize() int
}

func verifC15List(mk func() (verifCompact, func() int), z, maxLen int) {
	n := verifChoice(0, maxLen)
	b := verifBytes(n)
	orig := append([]byte(nil), b...)
	l, count := mk()
	verifAssert(l.ElemSize() == z, "C15 list: entry size")
	err := l.UnmarshalBinary(b)
	if n%z != 0 {
		verifAssert(err != nil, "C15 list: a length that is not a multiple of the entry size is an error")
		verifReach("partial")
		return
	}
	verifAssert(err == nil, "C15 list: a multiple of the entry size decodes")
	verifAssert(count() == n/z, "C15 list: L/z entries")
	out, err := l.MarshalBinary()
	verifAssert(err == nil, "C15 list: re-encode succeeds")
	verifAssert(verifSameBytes(out, orig), "C15 list: re-encode is the identity")
	verifReach("end")
}

func VerifC15_V4Addrs() {
	verifC15List(func() (verifCompact, func() int) {
		l := new(CompactIPv4NodeAddrs)
		return l, func() int { return len(*l) }
	}, 6, 13)
}
func VerifC15_V6Addrs() {
	verifC15List(func() (verifCompact, func() int) {
		l := new(CompactIPv6NodeAddrs)
		return l, func() int { return len(*l) }
	}, 18, 37)
}
func VerifC15_V4Infos() {
	verifC15List(func() (verifCompact, func() int) {
		l := new(CompactIPv4NodeInfo)
		return l, func() int { return len(*l) }
	}, 26, 53)
}
func VerifC15_V6Infos() {
	verifC15List(func() (verifCompact, func() int) {
		l := new(CompactIPv6NodeInfo)
		return l, func() int { return len(*l) }
	}, 38, 77)
}
func VerifC15_Infohashes() {
	verifC15List(func() (verifCompact, func() int) {
		l := new(CompactInfohashes)
		return l, func() int { return len(*l) }
	}, 20, 41)
}

// ---- encode direction: a list of well-formed contacts of the list's own family round-trips ----

func VerifC15_EncodeV4Infos() {
	n := verifChoice(0, 2)
	l := make(CompactIPv4NodeInfo, n)
	for i := range l {
		verifFill(l[i].ID[:])
		if verifNondetBool() {
			l[i].Addr.IP = verifBytes(4)
		} else {
			ip := make(net.IP, 16)
			ip[10], ip[11] = 0xff, 0xff
			verifFill(ip[12:])
			l[i].Addr.IP = ip
		}
		l[i].Addr.Port = int(verifNondetU16())
	}
	b, err := l.MarshalBinary()
	verifAssert(err == nil, "C15 encode v4 infos: succeeds")
	verifAssert(len(b) == 26*n, "C15 encode v4 infos: 26 bytes per contact")
	var back CompactIPv4NodeInfo
	verifAssert(back.UnmarshalBinary(b) == nil, "C15 encode v4 infos: decodes")
	verifAssert(len(back) == n, "C15 encode v4 infos: same count")
	for i := range back {
		verifAssert(back[i].ID == l[i].ID, "C15 encode v4 infos: id")
		verifAssert(back[i].Addr.Port == l[i].Addr.Port, "C15 encode v4 infos: port")
		verifAssert(verifSameBytes(back[i].Addr.IP, l[i].Addr.IP.To4()), "C15 encode v4 infos: address")
	}
	verifReach("end")
}

func VerifC15_EncodeV6Infos() {
	n := verifChoice(0, 2)
	l := make(CompactIPv6NodeInfo, n)
	for i := range l {
		verifFill(l[i].ID[:])
		l[i].Addr.IP = verifBytes(16)
		l[i].Addr.Port = int(verifNondetU16())
	}
	b, err := l.MarshalBinary()
	verifAssert(err == nil, "C15 encode v6 infos: succeeds")
	verifAssert(len(b) == 38*n, "C15 encode v6 infos: 38 bytes per contact")
	var back CompactIPv6NodeInfo
	verifAssert(back.UnmarshalBinary(b) == nil, "C15 encode v6 infos: decodes")
	verifAssert(len(back) == n, "C15 encode v6 infos: same count")
	for i := range back {
		verifAssert(back[i].ID == l[i].ID, "C15 encode v6 infos: id")
		verifAssert(back[i].Addr.Port == l[i].Addr.Port, "C15 encode v6 infos: port")
		verifAssert(verifSameBytes(back[i].Addr.IP, l[i].Addr.IP), "C15 encode v6 infos: address")
	}
	verifReach("end")
}

func VerifC15_MustFail() {
	b := verifBytes(6)
	var na NodeAddr
	na.UnmarshalBinary(b)
	verifAssert(na.Port == int(b[5])<<8|int(b[4]), "twin: little-endian port (must fail)")
	verifReach("end")
}

// ---- bencode-level entry points of the krpc package (the decoder proper is a stub: see assumptions) ----

// verifWire frames n arbitrary bytes as the bencode byte string "<n>:<bytes>".
func verifWire(n int) ([]byte, []byte) {
	payload := verifBytes(n)
	var hdr []byte
	if n >= 10 {
		hdr = append(hdr, byte('0'+n/10))
	}
	hdr = append(hdr, byte('0'+n%10), ':')
	return append(hdr, payload...), payload
}

// ID.UnmarshalBencode: exactly the 20-byte strings decode to that ID; shorter ones are an error.
func VerifC15_IDBencode() {
	n := verifChoice(0, 21)
	w, payload := verifWire(n)
	var id ID
	err := id.UnmarshalBencode(w)
	if n < 20 {
		verifAssert(err != nil, "C15 ID: a string shorter than 20 bytes is an error")
		verifReach("short")
		return
	}
	verifAssert(err == nil, "C15 ID: 20 bytes decode")
	verifAssert(verifSameBytes(id[:], payload[:20]), "C15 ID: decoded bytes are the string's first 20 bytes")
	if n == 20 {
		out, merr := id.MarshalBencode()
		verifAssert(merr == nil && verifSameBytes(out, w), "C15 ID: re-encoding reproduces the wire bytes")
	}
	verifReach("end")
}


// Error.UnmarshalBencode over every decoded value shape: a list [int, string, ...] or a bare string
// decodes; anything else is an error; nothing panics.
func VerifC15_ErrorValue() {
	elem := func() interface{} {
		switch verifChoice(0, 4) {
		case 0:
			return verifNondetI64()
		case 1:
			return verifSymString(verifChoice(0, 2))
		case 2:
			return []interface{}{}
		case 3:
			return map[string]interface{}{}
		}
		return nil
	}
	var v interface{}
	var want bool
	switch verifChoice(0, 3) {
	case 0:
		v = verifSymString(verifChoice(0, 3))
		want = true
	case 1:
		v = verifNondetI64()
	case 2:
		v = map[string]interface{}{}
	case 3:
		n := verifChoice(0, 3)
		l := make([]interface{}, n)
		for i := range l {
			l[i] = elem()
		}
		v = l
		if n >= 2 {
			_, ok0 := l[0].(int64)
			_, ok1 := l[1].(string)
			want = ok0 && ok1
		}
	}
	var e Error
	err := e.UnmarshalBencode(verifEncode(v, 8))
	verifAssert((err == nil) == want, "C15 Error: decodes exactly [int, string, ...] lists and bare strings")
	if l, ok := v.([]interface{}); ok && want {
		verifAssert(int64(e.Code) == l[0].(int64) && e.Msg == l[1].(string), "C15 Error: code and message are the list's first two elements")
		verifReach("list")
	}
	if s, ok := v.(string); ok {
		verifAssert(e.Msg == s, "C15 Error: a bare string is the message")
	}
	verifReach("end")
}

// The bencode wrappers of the compact types: the byte string is handed to UnmarshalBinary unchanged.
func VerifC15_BencodeWrappers() {
	which := verifChoice(0, 2)
	size := []int{26, 6, 20}[which]
	n := []int{0, size - 1, size, size + 1}[verifChoice(0, 3)]
	w, payload := verifWire(n)
	var err error
	var out []byte
	switch which {
	case 0:
		var x CompactIPv4NodeInfo
		err = x.UnmarshalBencode(w)
		if err == nil {
			out, _ = x.MarshalBinary()
		}
	case 1:
		var x CompactIPv4NodeAddrs
		err = x.UnmarshalBencode(w)
		if err == nil {
			out, _ = x.MarshalBinary()
		}
	case 2:
		var x CompactInfohashes
		err = x.UnmarshalBencode(w)
		if err == nil {
			out, _ = x.MarshalBinary()
		}
	}
	verifAssert((err == nil) == (n%size == 0), "C15 wrappers: exactly multiples of the entry size decode")
	if err == nil {
		verifAssert(verifSameBytes(out, payload), "C15 wrappers: re-encoding reproduces the payload")
	}
	verifReach("end")
}

// Encoding must not depend on (or disturb) how the caller laid out its slices: addresses whose IP
// slices are windows into one shared buffer (spare capacity behind each) encode to the same bytes as
// freshly allocated ones, decode back to the same contacts, and the caller's buffer is left alone.
func VerifC15_EncodeSharedBuffer() {
	buf := verifBytes(12)
	orig := append([]byte(nil), buf...)
	p0, p1 := int(verifNondetU16()), int(verifNondetU16())
	addrs := CompactIPv4NodeAddrs{{IP: net.IP(buf[0:4]), Port: p0}, {IP: net.IP(buf[4:8]), Port: p1}}
	enc, err := addrs.MarshalBinary()
	verifAssert(err == nil && len(enc) == 12, "C15 encode: two IPv4 addresses encode to 12 bytes")
	verifAssert(verifSameBytes(buf, orig), "C15 encode: encoding does not write into the caller's buffers")
	var dec CompactIPv4NodeAddrs
	verifAssert(dec.UnmarshalBinary(enc) == nil && len(dec) == 2, "C15 encode: the encoding decodes")
	if len(dec) == 2 {
		verifAssert(verifSameBytes(dec[0].IP, orig[0:4]) && dec[0].Port == p0, "C15 round trip: first address")
		verifAssert(verifSameBytes(dec[1].IP, orig[4:8]) && dec[1].Port == p1, "C15 round trip: second address")
	}
	enc2, _ := addrs.MarshalBinary()
	verifAssert(verifSameBytes(enc, enc2), "C15 encode: encoding the same value twice gives the same bytes")
	// single NodeAddr with spare capacity
	na := NodeAddr{IP: net.IP(buf[8:12:12]), Port: p0}
	nb := NodeAddr{IP: net.IP(orig[8:10]), Port: p1}
	_ = nb
	b1, _ := na.MarshalBinary()
	verifAssert(len(b1) == 6 && verifSameBytes(b1[:4], orig[8:12]), "C15 encode: NodeAddr bytes")
	verifReach("end")
}
