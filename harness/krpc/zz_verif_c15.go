package krpc

import "net"

// C15 (binary codecs): NodeAddr / NodeInfo and the compact lists.

func verifBytes(n int) []byte {
	b := make([]byte, n)
	verifFill(b)
	return b
}

func verifSameBytes(a, b []byte) bool {
	if len(a) != len(b) {
		return false
	}
	for i := range a {
		if a[i] != b[i] {
			return false
		}
	}
	return true
}

// NodeAddr: L >= 2 decodes to (IP = first L-2 bytes, big-endian port), L < 2 is an error; re-encoding
// reproduces the input bytes.
func VerifC15_NodeAddr() {
	n := verifChoice(0, 20)
	b := verifBytes(n)
	orig := append([]byte(nil), b...)
	var na NodeAddr
	err := na.UnmarshalBinary(b)
	if n < 2 {
		verifAssert(err != nil, "C15 NodeAddr: fewer than 2 bytes is an error")
		verifReach("short")
		return
	}
	verifAssert(err == nil, "C15 NodeAddr: >= 2 bytes decodes")
	verifAssert(len(na.IP) == n-2, "C15 NodeAddr: IP is the first L-2 bytes")
	verifAssert(verifSameBytes(na.IP, orig[:n-2]), "C15 NodeAddr: IP bytes")
	verifAssert(na.Port == int(orig[n-2])<<8|int(orig[n-1]), "C15 NodeAddr: big-endian port")
	out, err := na.MarshalBinary()
	verifAssert(err == nil, "C15 NodeAddr: re-encode succeeds")
	verifAssert(verifSameBytes(out, orig), "C15 NodeAddr: re-encode is the identity")
	verifReach("end")
}

// NodeInfo: no input length may panic; L >= 22 decodes (id, ip, port) and re-encodes identically;
// shorter inputs are an error.
func VerifC15_NodeInfo() {
	n := verifChoice(0, 40)
	b := verifBytes(n)
	orig := append([]byte(nil), b...)
	var ni NodeInfo
	err := ni.UnmarshalBinary(b)
	if n < 22 {
		verifAssert(err != nil, "C15 NodeInfo: fewer than 22 bytes is an error")
		verifReach("short")
		return
	}
	verifAssert(err == nil, "C15 NodeInfo: >= 22 bytes decodes")
	verifAssert(verifSameBytes(ni.ID[:], orig[:20]), "C15 NodeInfo: id bytes")
	verifAssert(verifSameBytes(ni.Addr.IP, orig[20:n-2]), "C15 NodeInfo: IP bytes")
	verifAssert(ni.Addr.Port == int(orig[n-2])<<8|int(orig[n-1]), "C15 NodeInfo: big-endian port")
	out, err := ni.MarshalBinary()
	verifAssert(err == nil, "C15 NodeInfo: re-encode succeeds")
	verifAssert(verifSameBytes(out, orig), "C15 NodeInfo: re-encode is the identity")
	verifReach("end")
}

// ---- compact lists: decode exactly the multiples of the entry size, re-encode identically ----

type verifCompact interface {
	UnmarshalBinary([]byte) error
	MarshalBinary() ([]byte, error)
	ElemSize() int
}

func verifC15List(mk func() (verifCompact, func() int), z, maxLen int) {
	n := verifChoice(0, maxLen)
	b := verifBytes(n)
	orig := append([]byte(nil), b...)
	l, count := mk()
	verifAssert(l.ElemSize() == z, "C15 list: entry size")
	err := l.UnmarshalBinary(b)
	if n%z != 0 {
		verifAssert(err != nil, "C15 list: a length that is not a multiple of the entry size is an error")
		verifReach("partial")
		return
	}
	verifAssert(err == nil, "C15 list: a multiple of the entry size decodes")
	verifAssert(count() == n/z, "C15 list: L/z entries")
	out, err := l.MarshalBinary()
	verifAssert(err == nil, "C15 list: re-encode succeeds")
	verifAssert(verifSameBytes(out, orig), "C15 list: re-encode is the identity")
	verifReach("end")
}

func VerifC15_V4Addrs() {
	verifC15List(func() (verifCompact, func() int) {
		l := new(CompactIPv4NodeAddrs)
		return l, func() int { return len(*l) }
	}, 6, 13)
}
func VerifC15_V6Addrs() {
	verifC15List(func() (verifCompact, func() int) {
		l := new(CompactIPv6NodeAddrs)
		return l, func() int { return len(*l) }
	}, 18, 37)
}
func VerifC15_V4Infos() {
	verifC15List(func() (verifCompact, func() int) {
		l := new(CompactIPv4NodeInfo)
		return l, func() int { return len(*l) }
	}, 26, 53)
}
func VerifC15_V6Infos() {
	verifC15List(func() (verifCompact, func() int) {
		l := new(CompactIPv6NodeInfo)
		return l, func() int { return len(*l) }
	}, 38, 77)
}
func VerifC15_Infohashes() {
	verifC15List(func() (verifCompact, func() int) {
		l := new(CompactInfohashes)
		return l, func() int { return len(*l) }
	}, 20, 41)
}

// ---- encode direction: a list of well-formed contacts of the list's own family round-trips ----

func VerifC15_EncodeV4Infos() {
	n := verifChoice(0, 2)
	l := make(CompactIPv4NodeInfo, n)
	for i := range l {
		verifFill(l[i].ID[:])
		if verifNondetBool() {
			l[i].Addr.IP = verifBytes(4)
		} else {
			ip := make(net.IP, 16)
			ip[10], ip[11] = 0xff, 0xff
			verifFill(ip[12:])
			l[i].Addr.IP = ip
		}
		l[i].Addr.Port = int(verifNondetU16())
	}
	b, err := l.MarshalBinary()
	verifAssert(err == nil, "C15 encode v4 infos: succeeds")
	verifAssert(len(b) == 26*n, "C15 encode v4 infos: 26 bytes per contact")
	var back CompactIPv4NodeInfo
	verifAssert(back.UnmarshalBinary(b) == nil, "C15 encode v4 infos: decodes")
	verifAssert(len(back) == n, "C15 encode v4 infos: same count")
	for i := range back {
		verifAssert(back[i].ID == l[i].ID, "C15 encode v4 infos: id")
		verifAssert(back[i].Addr.Port == l[i].Addr.Port, "C15 encode v4 infos: port")
		verifAssert(verifSameBytes(back[i].Addr.IP, l[i].Addr.IP.To4()), "C15 encode v4 infos: address")
	}
	verifReach("end")
}

func VerifC15_EncodeV6Infos() {
	n := verifChoice(0, 2)
	l := make(CompactIPv6NodeInfo, n)
	for i := range l {
		verifFill(l[i].ID[:])
		l[i].Addr.IP = verifBytes(16)
		l[i].Addr.Port = int(verifNondetU16())
	}
	b, err := l.MarshalBinary()
	verifAssert(err == nil, "C15 encode v6 infos: succeeds")
	verifAssert(len(b) == 38*n, "C15 encode v6 infos: 38 bytes per contact")
	var back CompactIPv6NodeInfo
	verifAssert(back.UnmarshalBinary(b) == nil, "C15 encode v6 infos: decodes")
	verifAssert(len(back) == n, "C15 encode v6 infos: same count")
	for i := range back {
		verifAssert(back[i].ID == l[i].ID, "C15 encode v6 infos: id")
		verifAssert(back[i].Addr.Port == l[i].Addr.Port, "C15 encode v6 infos: port")
		verifAssert(verifSameBytes(back[i].Addr.IP, l[i].Addr.IP), "C15 encode v6 infos: address")
	}
	verifReach("end")
}

func VerifC15_MustFail() {
	b := verifBytes(6)
	var na NodeAddr
	na.UnmarshalBinary(b)
	verifAssert(na.Port == int(b[5])<<8|int(b[4]), "twin: little-endian port (must fail)")
	verifReach("end")
}
