package transactions

// C07: queries outstanding at the same time never share a transaction id. The issuer is a counter;
// an id issued now must not come back while up to 2^16+464 further ids are issued (one concrete run:
// no input is symbolic here, the point is the recurrence distance).
func VerifC07_IssuerNoRecurrence() {
	var iss varintIdIssuer
	first := iss.Issue()
	prev := first
	for i := 0; i < 66000; i++ {
		id := iss.Issue()
		verifAssert(id != first, "C07: a transaction id is not issued again while the first one may still be outstanding")
		verifAssert(id != prev, "C07: consecutive transaction ids differ")
		prev = id
	}
	verifReach("end")
}

func VerifC07_IssuerMustFail() {
	var iss varintIdIssuer
	a := iss.Issue()
	verifAssert(iss.Issue() == a, "twin: the issuer repeats itself at once (must fail)")
}
