package traversal

import (
	"context"
	"net"

	"github.com/anacrolix/generics"

	"github.com/anacrolix/dht/v2/int160"
	k_nearest_nodes "github.com/anacrolix/dht/v2/k-nearest-nodes"
	"github.com/anacrolix/dht/v2/krpc"
	"github.com/anacrolix/dht/v2/types"
)

// C02 / C03 / C04: the real traversal.Operation (run loop, startQuery goroutines, Stop, the chansync
// condition protocol, the sorted containers) runs under the engine's scheduler against a simulated
// network: DoQuery is a harness function that records who is asked, yields (so that in-flight queries
// complete in every order) and answers from a response graph chosen by the solver/exploration.

type verifNode struct {
	addr       krpc.NodeAddr
	id         krpc.ID
	responds   bool
	token      bool  // answers carry closest-data accepted by the data filter
	neighbours []int // indices of the nodes it lists
	// adversarial extras: addresses listed under an ID that is not theirs
	aliases []krpc.NodeInfo
}

type verifNet struct {
	target    krpc.ID
	nodes     []verifNode
	asked     []int // queries per node
	inflight  int
	maxFlight int
	ctxs      []context.Context
	answered  []bool
	learned   []bool // the lookup was told about this node (seed or neighbour list)
	learnedID []bool // ... together with its ID
	filtered  []bool // rejected by the node filter
	unknown   int    // queries to addresses that are not in the network
	stopped   bool
	// label of the "stalled while the frontier holds a contact the lookup would query" assertion
	staleLabel string
	alpha      int // when set, the fan-out bound is checked at the moment a query starts
}

func verifNodeAddr(i int) krpc.NodeAddr {
	return krpc.NodeAddr{IP: net.IP{10, 9, 0, byte(i + 1)}, Port: 7000 + i}
}

// verifID: an ID at XOR distance d (small integer) from the target.
func verifID(target krpc.ID, d byte) (id krpc.ID) {
	id = target
	id[19] ^= d
	return
}

func (n *verifNet) index(addr krpc.NodeAddr) int {
	for i := range n.nodes {
		if n.nodes[i].addr.Port == addr.Port && n.nodes[i].addr.IP.Equal(addr.IP) {
			return i
		}
	}
	return -1
}

func (n *verifNet) info(i int) krpc.NodeInfo {
	return krpc.NodeInfo{ID: n.nodes[i].id, Addr: n.nodes[i].addr}
}

func (n *verifNet) doQuery(ctx context.Context, addr krpc.NodeAddr) (res QueryResult) {
	i := n.index(addr)
	n.inflight++
	if n.inflight > n.maxFlight {
		n.maxFlight = n.inflight
	}
	if n.alpha > 0 {
		verifAssert(n.inflight <= n.alpha, "C04: never more than Alpha queries are in flight at once")
	}
	if i < 0 {
		n.unknown++
	} else {
		n.asked[i]++
		n.ctxs = append(n.ctxs, ctx)
		// checked at the moment of the query, so that a lookup that re-queries forever is a violation
		// and not an exhausted exploration bound
		verifAssert(n.asked[i] <= 1, "C04: no address is queried more than once, however often and under however many IDs it is reported")
		verifAssert(!n.filtered[i], "C04: an address rejected by the node filter is never queried")
		if n.asked[i] > 1 {
			verifStopPath()
		}
	}
	verifYield() // the reply is in flight: any other goroutine may run first
	n.inflight--
	if i < 0 || !n.nodes[i].responds {
		return
	}
	n.answered[i] = true
	ni := n.info(i)
	res.ResponseFrom = &ni
	if n.nodes[i].token {
		res.ClosestData = "tok"
	}
	for _, j := range n.nodes[i].neighbours {
		res.Nodes = append(res.Nodes, n.info(j))
		n.learned[j] = true
		n.learnedID[j] = true
	}
	res.Nodes = append(res.Nodes, n.nodes[i].aliases...)
	return
}

func (n *verifNet) nodeFilter(a types.AddrMaybeId) bool {
	i := n.index(a.Addr.ToNodeAddr())
	return i < 0 || !n.filtered[i]
}

func verifNewNet(target krpc.ID, count int) *verifNet {
	n := &verifNet{target: target}
	n.nodes = make([]verifNode, count)
	n.asked = make([]int, count)
	n.answered = make([]bool, count)
	n.learned = make([]bool, count)
	n.learnedID = make([]bool, count)
	n.filtered = make([]bool, count)
	for i := range n.nodes {
		n.nodes[i].addr = verifNodeAddr(i)
		n.nodes[i].id = verifID(target, byte(i+1)) // node i is the (i+1)-th closest
		n.nodes[i].responds = true
		n.nodes[i].token = true
	}
	return n
}

func (n *verifNet) seed(op *Operation, i int, withID bool) {
	a := types.AddrMaybeId{Addr: n.nodes[i].addr.ToNodeAddrPort()}
	if withID {
		a.Id = generics.Some(n.nodes[i].id.Int160())
	}
	n.learned[i] = true
	if withID {
		n.learnedID[i] = true
	}
	op.AddNode(a)
}

func verifDist(a, target krpc.ID) int160.T { return a.Int160().Distance(target.Int160()) }

// verifCheckDiscipline: C04 - fan-out, once per address, filter first.
func (n *verifNet) checkDiscipline(alpha int) {
	verifAssert(n.maxFlight <= alpha, "C04: never more than Alpha queries are in flight at once")
	for i := range n.nodes {
		verifAssert(n.asked[i] <= 1, "C04: no address is queried more than once, however often and under however many IDs it is reported")
		if n.filtered[i] {
			verifAssert(n.asked[i] == 0, "C04: an address rejected by the node filter is never queried")
		}
	}
}

// verifCheckStall: C03 - at the moment the lookup reports stalled.
func (n *verifNet) checkStall(op *Operation, k int) {
	// The lookup's own predicate, evaluated under its lock at the moment of the report: if it says there
	// is a contact to query (or a query has meanwhile been started), the stalled report delivered was an
	// offer made before that contact was added.
	op.mu.Lock()
	stale := op.outstanding > 0 || op.haveQuery()
	op.mu.Unlock()
	label := n.staleLabel
	if label == "" {
		label = "C03: stale stalled offer - the lookup reports stalled while its own frontier holds a contact it would query"
	}
	verifAssert(!stale, label)
	if stale {
		return
	}
	verifAssert(n.inflight == 0, "C03: no query is in flight when the lookup reports stalled")
	full := op.Closest().Len() >= k
	var far krpc.ID
	if full {
		op.Closest().Range(func(e k_nearest_nodes.Elem) { far = e.ID })
	}
	for i := range n.nodes {
		if !n.learned[i] || n.filtered[i] || n.asked[i] > 0 {
			continue
		}
		// an unqueried, learned, filter-passing contact is allowed only when the result set is full and
		// the contact is farther than its farthest member
		ok := full && (!n.learnedID[i] || verifDist(n.nodes[i].id, n.target).Cmp(verifDist(far, n.target)) > 0)
		verifAssert(ok, "C03: at stall every learned contact that passes the filter has been queried, except - with a full result set - contacts farther than its farthest member or of unknown ID")
	}
}

// verifCheckClosest: C02 - the result set after the lookup stopped.
func (n *verifNet) checkClosest(op *Operation, k int, honest bool) {
	var members []krpc.ID
	op.Closest().Range(func(e k_nearest_nodes.Elem) {
		members = append(members, e.ID)
		i := n.index(e.Addr.ToNodeAddr())
		verifAssert(i >= 0 && n.answered[i] && n.nodes[i].id == e.ID, "C02: every member of the result set answered a query of this lookup")
		verifAssert(i >= 0 && !n.filtered[i] && n.nodes[i].token, "C02: ... and passed the node and data filters")
		verifAssert(e.Data == "tok", "C16: the closest set keeps the data the node itself returned")
	})
	verifAssert(len(members) <= k, "C02: the result set holds at most K contacts")
	for i := range n.nodes {
		if !n.answered[i] || n.filtered[i] || !n.nodes[i].token {
			continue
		}
		in := false
		for _, m := range members {
			if m == n.nodes[i].id {
				in = true
			}
		}
		if in {
			continue
		}
		for _, m := range members {
			verifAssert(verifDist(n.nodes[i].id, n.target).Cmp(verifDist(m, n.target)) >= 0, "C02: no responder that passed the filters and is absent from the set is strictly closer than a member")
		}
		verifAssert(len(members) == k, "C02: a responder is left out only of a full set")
	}
	if honest {
		want := k
		if len(n.nodes) < k {
			want = len(n.nodes)
		}
		verifAssert(len(members) == want, "C02: in an honest finite network the result holds K contacts")
		for j := 0; j < want; j++ {
			found := false
			for _, m := range members {
				if m == n.nodes[j].id {
					found = true
				}
			}
			verifAssert(found, "C02: in an honest finite network the result is exactly the K closest nodes")
		}
	}
}

func (n *verifNet) run(alpha, k int, seeds []int, honest bool) {
	n.alpha = alpha
	op := Start(OperationInput{Target: n.target, Alpha: alpha, K: k, DoQuery: n.doQuery, NodeFilter: n.nodeFilter,
		DataFilter: func(d any) bool { _, ok := d.(string); return ok }})
	for _, s := range seeds {
		n.seed(op, s, verifNondetBool())
	}
	<-op.Stalled()
	n.checkStall(op, k)
	op.Stop()
	<-op.Stopped()
	n.stopped = true
	n.checkDiscipline(alpha)
	n.checkClosest(op, k, honest)
	for _, c := range n.ctxs {
		verifAssert(c.Err() != nil, "C04: every query's context is cancelled once the lookup has stopped")
	}
}

var verifTarget = krpc.ID{0x42, 0x17, 0x99, 0x03, 0xe0, 0x5b, 0x6c, 0x7d, 0x8e, 0x9f, 0xa0, 0xb1, 0xc2, 0xd3, 0xe4, 0xf5, 0x06, 0x17, 0x28, 0x39}

// Honest network: every node answers with all other nodes; one arbitrary seed.
func VerifTrav_Honest() {
	const count, k = 3, 2
	n := verifNewNet(verifTarget, count)
	for i := range n.nodes {
		for j := range n.nodes {
			if j != i {
				n.nodes[i].neighbours = append(n.nodes[i].neighbours, j)
			}
		}
	}
	alpha := verifChoice(1, 2)
	n.run(alpha, k, []int{verifChoice(0, count-1)}, true)
	verifReach("end")
}

// Arbitrary response graph over three nodes: who answers, who carries a token, who is filtered,
// which neighbours each lists; one or two seeds.
func VerifTrav_Arbitrary() {
	const count, k = 3, 2
	n := verifNewNet(verifTarget, count)
	for i := range n.nodes {
		n.nodes[i].responds = verifNondetBool()
		n.nodes[i].token = verifNondetBool()
		n.filtered[i] = verifNondetBool()
		for j := range n.nodes {
			if j != i && verifNondetBool() {
				n.nodes[i].neighbours = append(n.nodes[i].neighbours, j)
			}
		}
	}
	seeds := []int{0}
	if verifNondetBool() {
		seeds = []int{2, 1}
	}
	n.run(verifChoice(1, 2), k, seeds, false)
	verifReach("end")
}

// One victim address reported under several IDs (in one reply and across replies and seeds).
func VerifTrav_DuplicateIDs() {
	const count, k = 3, 2
	n := verifNewNet(verifTarget, count)
	victim := n.nodes[2].addr
	n.nodes[0].neighbours = []int{1, 2}
	n.nodes[0].aliases = []krpc.NodeInfo{{ID: verifID(verifTarget, 0x21), Addr: victim}, {ID: verifID(verifTarget, 0x22), Addr: victim}}
	n.nodes[1].aliases = []krpc.NodeInfo{{ID: verifID(verifTarget, 0x23), Addr: victim}}
	// the victim may also be a seed (queued with or without its ID before any reply mentions it)
	seeds := []int{0}
	if verifNondetBool() {
		seeds = []int{2, 0}
	}
	n.run(verifChoice(1, 2), k, seeds, false)
	verifReach("end")
}

// An address reported again while its first query is still in flight: two seeds queried together
// (Alpha 2); each lists the other - under its real ID or under another one - so whichever answers
// first re-reports the one still being asked, which is then the closest candidate when the slot
// frees. Every completion order: each address is asked once.
func VerifTrav_RelistedInFlight() {
	const count, k = 2, 2
	n := verifNewNet(verifTarget, count)
	for i := 0; i < count; i++ {
		o := 1 - i
		if verifNondetBool() {
			n.nodes[i].neighbours = []int{o}
		} else {
			n.nodes[i].aliases = []krpc.NodeInfo{{ID: verifID(verifTarget, byte(0x10+i)), Addr: n.nodes[o].addr}}
		}
	}
	n.run(2, k, []int{0, 1}, false)
	verifReach("end")
}

// An honest network whose nodes answer with the true K closest nodes of the network, sorted by
// distance and including themselves (so a reply routinely names nodes that were already queried, or
// are being queried, ahead of ones not yet known): one or two seeds, Alpha 1..2, every completion
// order. The result is exactly the K closest nodes.
func VerifTrav_HonestSorted() { verifHonestSorted(4) }

func verifHonestSorted(count int) {
	const k = 3
	n := verifNewNet(verifTarget, count)
	for i := range n.nodes {
		n.nodes[i].neighbours = []int{0, 1, 2} // the true K closest, itself included where it is one
	}
	seeds := [][]int{{0}, {count - 1}, {0, 2}, {count - 1, 1}}[verifChoice(0, 3)]
	n.run(verifChoice(1, 2), k, seeds, true)
	verifReach("end")
}

// Two nodes that share one node ID (a multi-homed node, a NAT rebinding, or an impersonator) at
// different addresses, both named in one reply: both are learned, both are queried (C03: nothing
// learned is left unqueried at stall while the result set has room), each once.
func VerifTrav_SharedID() {
	const count, k = 3, 3
	n := verifNewNet(verifTarget, count)
	n.nodes[2].id = n.nodes[1].id
	n.nodes[0].neighbours = []int{1, 2}
	if verifNondetBool() {
		n.nodes[0].neighbours = []int{2, 1}
	}
	seeds := []int{0}
	if verifNondetBool() {
		seeds = []int{1, 0} // one of the two is known from the start
	}
	n.run(verifChoice(1, 2), k, seeds, false)
	for i := range n.nodes {
		verifAssert(n.asked[i] == 1, "C03: every learned contact is queried, also when two of them share a node ID")
	}
	verifReach("end")
}

// One address queued under two IDs ahead of other candidates (seed set or one reply naming it twice):
// the second entry is skipped when it is popped, and that skip must not disturb the fan-out
// accounting - with Alpha 1..2 and further candidates waiting, never more than Alpha queries are in
// flight, every address is asked once, and the lookup still ends.
func VerifTrav_AliasAhead() {
	const count, k = 4, 4
	n := verifNewNet(verifTarget, count)
	alpha := verifChoice(1, 2)
	n.alpha = alpha
	op := Start(OperationInput{Target: n.target, Alpha: alpha, K: k, DoQuery: n.doQuery, NodeFilter: n.nodeFilter,
		DataFilter: func(d any) bool { _, ok := d.(string); return ok }})
	// node 0 (distance 1) also under an ID at distance 2; nodes 2 and 3 (distances 3, 4) wait behind
	alias := types.AddrMaybeId{Addr: n.nodes[0].addr.ToNodeAddrPort(), Id: generics.Some(verifID(verifTarget, 2).Int160())}
	var first []types.AddrMaybeId
	for _, i := range []int{0, 2, 3} {
		first = append(first, types.AddrMaybeId{Addr: n.nodes[i].addr.ToNodeAddrPort(), Id: generics.Some(n.nodes[i].id.Int160())})
		n.learned[i], n.learnedID[i] = true, true
	}
	if verifNondetBool() {
		first = append([]types.AddrMaybeId{alias}, first...)
	} else {
		first = append(first, alias)
	}
	op.AddNodes(first)
	<-op.Stalled()
	n.checkStall(op, k)
	op.Stop()
	<-op.Stopped()
	n.stopped = true
	n.checkDiscipline(alpha)
	n.checkClosest(op, k, false)
	verifReach("end")
}

func VerifTrav_MustFail() {
	n := verifNewNet(verifTarget, 2)
	n.nodes[0].neighbours = []int{1}
	n.run(1, 2, []int{0}, false)
	verifAssert(n.asked[1] == 0, "twin: a neighbour learned from a reply is never queried (must fail)")
}

// The smallest lookup: one node, seeded right after Start. Every placement of two preemptions.
func VerifTrav_SeedRace() {
	n := verifNewNet(verifTarget, 1)
	n.run(1, 2, []int{0}, false)
	verifReach("end")
}

// Two nodes in a chain (the seed lists the second one), Alpha 1: with one preemption anywhere, the
// lookup still ends with both nodes queried and both in the result.
func VerifTrav_Chain2() {
	n := verifNewNet(verifTarget, 2)
	n.nodes[0].neighbours = []int{1}
	n.nodes[1].neighbours = []int{0}
	n.run(1, 2, []int{0}, true)
	verifReach("end")
}

// A contact whose IPv4 address arrives in 16-byte (v4-mapped) form, listed again after it has been
// queried (by itself and by its neighbour): asked once, and the lookup terminates.
func VerifTrav_MappedRelisted() {
	n := verifNewNet(verifTarget, 2)
	n.nodes[1].addr = krpc.NodeAddr{IP: net.IPv4(10, 9, 0, 2), Port: 7001} // 16-byte form
	n.nodes[0].neighbours = []int{1}
	n.nodes[1].neighbours = []int{1, 0}
	n.nodes[1].aliases = []krpc.NodeInfo{{ID: verifID(verifTarget, 0x31), Addr: n.nodes[1].addr}}
	n.run(verifChoice(1, 2), 2, []int{0}, false)
	verifReach("end")
}

// Stop at an arbitrary moment (before, during or after the queries): Stopped fires once the in-flight
// queries have returned, every query context is cancelled, nothing is left blocked (engine verdict).
func VerifTrav_StopAnytime() { verifStopAnytime(3, 3) }

// The same with two nodes (C02's quick tier): whatever was answered by the time Stopped fires -
// including answers that came back after Stop was called - is in the result set.
func VerifTrav_StopEarly() { verifStopAnytime(2, 2) }

func verifStopAnytime(count, maxYields int) {
	n := verifNewNet(verifTarget, count)
	if count == 3 {
		n.nodes[0].neighbours = []int{1, 2}
		n.nodes[1].neighbours = []int{2}
	} else {
		n.nodes[0].neighbours = []int{1}
	}
	alpha := verifChoice(1, 2)
	op := Start(OperationInput{Target: n.target, Alpha: alpha, K: 2, DoQuery: n.doQuery, NodeFilter: n.nodeFilter,
		DataFilter: func(d any) bool { _, ok := d.(string); return ok }})
	n.seed(op, 0, true)
	if count == 2 && verifNondetBool() {
		n.seed(op, 1, true) // both known from the start: with Alpha 2 they are in flight together
	}
	for i := verifChoice(0, maxYields); i > 0; i-- {
		verifYield()
	}
	op.Stop()
	if verifNondetBool() {
		op.Stop() // stopping twice is harmless
	}
	<-op.Stopped()
	verifAssert(n.inflight == 0, "C03: Stopped fires only once the in-flight queries have returned")
	n.checkDiscipline(alpha)
	for _, c := range n.ctxs {
		verifAssert(c.Err() != nil, "C04: every query still in flight when the lookup is stopped has its context cancelled")
	}
	// C02 at Stopped: every responder - also one whose answer came back after Stop - is accounted for
	n.checkClosest(op, 2, false)
	// late AddNodes after Stop must not start anything
	last := count - 1
	asked := n.asked[last]
	n.seed(op, last, true)
	verifQuiesce()
	verifAssert(n.asked[last] == asked, "C03: nothing is queried after the lookup has stopped")
	verifReach("end")
}

// A node that is advertised under one ID but answers under another, with a node filter that depends on
// the ID: the filter applies to the ID the node itself reports. The advertised ID passes the filter,
// the real one does not: the node may be queried, but must not enter the result set.
func VerifTrav_LyingID() {
	n := verifNewNet(verifTarget, 3)
	liar := 1
	n.nodes[0].neighbours = []int{2}
	n.nodes[0].aliases = []krpc.NodeInfo{{ID: verifID(verifTarget, 0x40), Addr: n.nodes[liar].addr}}
	badID := n.nodes[liar].id
	filter := func(a types.AddrMaybeId) bool {
		return !(a.Id.Ok && a.Id.Value == badID.Int160())
	}
	alpha := verifChoice(1, 2)
	op := Start(OperationInput{Target: n.target, Alpha: alpha, K: 2, DoQuery: n.doQuery, NodeFilter: filter,
		DataFilter: func(d any) bool { _, ok := d.(string); return ok }})
	n.seed(op, 0, verifNondetBool())
	<-op.Stalled()
	op.Stop()
	<-op.Stopped()
	op.Closest().Range(func(e k_nearest_nodes.Elem) {
		verifAssert(e.ID != badID, "C02: every member of the result set passed the node filter with the ID it answered under")
	})
	verifAssert(op.Closest().Len() == 2, "C02: the two filter-passing responders make up the result")
	verifReach("end")
}

// A query that ends only when its context is cancelled (a slow remote): Stop must cancel it, Stopped
// must fire, and nothing may stay blocked.
func VerifTrav_StopCancelsInFlight() {
	n := verifNewNet(verifTarget, 2)
	n.nodes[0].neighbours = []int{1}
	entered := 0
	doQuery := func(ctx context.Context, addr krpc.NodeAddr) QueryResult {
		if n.index(addr) == 1 {
			entered++
			<-ctx.Done() // never answers: returns only when the lookup cancels the query
			return QueryResult{}
		}
		return n.doQuery(ctx, addr)
	}
	op := Start(OperationInput{Target: n.target, Alpha: verifChoice(1, 2), K: 2, DoQuery: doQuery})
	n.seed(op, 0, true)
	verifQuiesce()
	verifAssert(entered == 1, "C04 harness: the slow node is being queried")
	op.Stop()
	<-op.Stopped()
	verifReach("end")
}

// Contacts handed to the lookup after it has stalled (late AddNode / AddNodes, as Server.refreshBucket
// does on every bucket change): four nodes that list nobody, any one of them possibly rejected by the
// node filter; a first wave (any proper non-empty subset) is added, the lookup stalls; the rest arrive
// through AddNode or AddNodes, with or without IDs, and the lookup is waited for again. At both stalls
// every learned, filter-passing contact has been queried unless the result set is full and the
// contact is farther than its farthest member (or of unknown ID); a filtered address is never queried.
// No preemption: without the run loop being preempted, a stalled report with a queryable contact in
// the frontier is not the hand-off race recorded as a known finding.
func VerifTrav_LateAdd()  { verifLateAdd(4, 2) }
func VerifTrav_LateAdd5() { verifLateAdd(5, 3) }

func verifLateAdd(count, k int) {
	n := verifNewNet(verifTarget, count)
	n.staleLabel = "C03: the lookup reports stalled although a contact handed to it after an earlier stall is unqueried and would be queried"
	if f := verifChoice(-1, count-1); f >= 0 {
		n.filtered[f] = true
	}
	op := Start(OperationInput{Target: n.target, Alpha: 1, K: k, DoQuery: n.doQuery, NodeFilter: n.nodeFilter,
		DataFilter: func(d any) bool { _, ok := d.(string); return ok }})
	first := verifChoice(1, 1<<uint(count)-2)
	ids1, ids2 := verifNondetBool(), verifNondetBool()
	for i := 0; i < count; i++ {
		if first>>uint(i)&1 != 0 {
			n.seed(op, i, ids1)
		}
	}
	<-op.Stalled()
	n.checkStall(op, k)
	verifReach("stall1")
	if verifNondetBool() {
		for i := 0; i < count; i++ {
			if first>>uint(i)&1 == 0 {
				n.seed(op, i, ids2)
			}
		}
	} else {
		var late []types.AddrMaybeId
		for i := 0; i < count; i++ {
			if first>>uint(i)&1 == 0 {
				a := types.AddrMaybeId{Addr: n.nodes[i].addr.ToNodeAddrPort()}
				if ids2 {
					a.Id = generics.Some(n.nodes[i].id.Int160())
					n.learnedID[i] = true
				}
				n.learned[i] = true
				late = append(late, a)
			}
		}
		op.AddNodes(late)
	}
	<-op.Stalled()
	n.checkStall(op, k)
	verifReach("stall2")
	op.Stop()
	<-op.Stopped()
	n.stopped = true
	n.checkDiscipline(1)
	n.checkClosest(op, k, false)
	verifReach("end")
}

// The honest network again; the spec runs this entry with one preemption anywhere.
func VerifTrav_HonestP1() { VerifTrav_Honest() }

// Stop arriving at any moment while one query is bound to its context (a silent remote) and another
// one completes around the same time: whichever way the run loop exits, the silent query's context is
// cancelled, Stopped fires and nothing stays blocked.
func VerifTrav_StopWhileAwake()      { verifStopWhileAwake(4) }
func VerifTrav_StopWhileAwakeQuick() { verifStopWhileAwake(2) }

func verifStopWhileAwake(maxYields int) {
	n := verifNewNet(verifTarget, 3)
	n.nodes[0].neighbours = []int{2}
	slowStarted, slowCtxCancelled := false, false
	doQuery := func(ctx context.Context, addr krpc.NodeAddr) QueryResult {
		if n.index(addr) == 1 {
			slowStarted = true
			<-ctx.Done()
			slowCtxCancelled = true
			return QueryResult{}
		}
		return n.doQuery(ctx, addr)
	}
	op := Start(OperationInput{Target: n.target, Alpha: 2, K: 2, DoQuery: doQuery})
	n.seed(op, 1, true)
	n.seed(op, 0, true)
	for i := verifChoice(0, maxYields); i > 0; i-- {
		verifYield()
	}
	op.Stop()
	<-op.Stopped()
	verifAssert(!slowStarted || slowCtxCancelled, "C04: a query in flight when the lookup is stopped has its context cancelled")
	verifReach("end")
}

// The duplicate-ID graph again; the spec runs this entry with one preemption anywhere.
func VerifTrav_DuplicateIDsP1() { VerifTrav_DuplicateIDs() }
