#!/bin/bash
# Builds the symgo engine from files on disk only (offline). Run once after a fresh restore.
set -e
cd "$(dirname "$0")"
export GOFLAGS=-mod=mod GOPROXY=off GOSUMDB=off GOTOOLCHAIN=local
mkdir -p bin evidence replays
(cd engine && go build -o ../bin/symgo .)
command -v z3 >/dev/null || { echo "z3 missing"; exit 1; }
echo "setup ok: $(bin/symgo version 2>/dev/null || echo symgo built)"
