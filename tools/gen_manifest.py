#!/usr/bin/env python3
"""Regenerates /verif/MANIFEST.json from checks/*.json + tools/manifest_meta.json (one source of truth)."""
import json, os, glob
root = os.path.dirname(os.path.dirname(os.path.abspath(__file__)))
meta = json.load(open(os.path.join(root, 'tools', 'manifest_meta.json')))
props = [json.loads(l)['id'] for l in open(os.path.join(root, 'properties.jsonl')) if l.strip()]
checks = []
claimed = set()
for pid in props:
    sp = os.path.join(root, 'checks', pid + '.json')
    m = meta['checks'].get(pid)
    if not (os.path.exists(sp) and m):
        continue
    claimed.add(pid)
    c = {
        'property_id': pid,
        'quick_cmd': './check %s --tier quick' % pid,
        'evidence_file': 'evidence/%s.json' % pid,
        'replay_cmd_template': './check %s --replay {path}' % pid,
        'engine': 'symgo',
        'level_claimed': {'category': 'model_checking', 'text': m['text'], 'design_ref': m['design_ref']},
        'level_note': m['note'],
        'technique': 'symbolic execution of go/ssa of the current /repo tree + SMT (z3/cvc5), bounded',
    }
    spec = json.load(open(sp))
    if any(p.get('thorough') for p in spec['packages']):
        c['thorough_cmd'] = './check %s --tier thorough' % pid
    else:
        c['thorough_cmd'] = './check %s --tier thorough' % pid
    checks.append(c)
na = [{'property_id': p, 'reason': meta['not_applicable'].get(p, 'no sound check could be built within the engine reach; see DESIGN.md section 8')} for p in props if p not in claimed]
man = {
    'version': 1,
    'setup_cmd': './setup.sh',
    'hooks': meta['hooks'],
    'engines': [{'name': 'symgo', 'path': 'engine', 'serves_properties': sorted(claimed),
                 'kind_free_text': 'own symbolic executor for go/ssa (x/tools v0.29.0) emitting SMT-LIB2 to z3 4.8.12 / cvc5 1.0 over pipes; harnesses are in-package overlay files, encoding regenerated from /repo on every run'}],
    'checks': checks,
    'notes': meta['notes'],
    'not_applicable': na,
}
json.dump(man, open(os.path.join(root, 'MANIFEST.json'), 'w'), indent=1)
print('checks:', sorted(claimed), 'not_applicable:', [x['property_id'] for x in na])
