#!/bin/bash
# tools/process_seeds.sh <outdir> <suffix> [ids...] : validate candidate seeds delivered under <outdir>/<id>/,
# store the confirmed ones as seeded/<id>-<suffix>/ (meta.json from notes), and run their property's check.
cd /verif
out="$1"; suf="$2"; shift 2
ids="$@"; [ -z "$ids" ] && ids=$(ls "$out")
for id in $ids; do
  d="$out/$id"
  [ -f "$d/patch.diff" ] || { echo "$id: no patch yet"; continue; }
  [ -d "seeded/$id-$suf" ] && { echo "$id: already stored"; continue; }
  res=$(tools/validate_seed.sh "$d" 2>&1 | tail -1)
  echo "$res"
  if echo "$res" | grep -q 'applies demo-passes-clean builds suite-passes demo-fails-seeded'; then
    mkdir -p "seeded/$id-$suf"; cp -r "$d"/* "seeded/$id-$suf/"
    python3 - "$id" "$suf" <<'PY'
import json,sys,re,os
id,suf=sys.argv[1],sys.argv[2]
d=f"/verif/seeded/{id}-{suf}"
notes=open(os.path.join(d,"notes.md")).read() if os.path.exists(os.path.join(d,"notes.md")) else ""
first=" ".join(notes.split())[:600]
json.dump({"property":id,"change":first,"needs_to_manifest":"see notes.md","origin":"sub-agent of seeding round '"+suf+"' (given only the property text and a scratch worktree; told the mechanisms of the earlier seeds of this property and asked for a different one)","confirmed_by":"tools/validate_seed.sh in a scratch worktree: applies, builds, suite passes with the change, demo passes clean and fails with the change","detected_by":[]},open(os.path.join(d,"meta.json"),"w"),indent=1)
PY
    tools/seed_matrix.sh "seeded/$id-$suf" 2>&1 | cut -c1-240
  else
    echo "$id: NOT CONFIRMED automatically - check by hand"
  fi
done
