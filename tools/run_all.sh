#!/bin/bash
# tools/run_all.sh [tier] : run every registered check on the current tree, one line per check
cd "$(dirname "$0")/.."
tier="${1:-quick}"
for id in $(python3 -c "import json;print(' '.join(c['property_id'] for c in json.load(open('MANIFEST.json'))['checks']))"); do
  s=$(date +%s)
  out=$(./check $id --tier $tier 2>&1)
  rc=$?
  e=$(date +%s)
  echo "$id rc=$rc $((e-s))s $(echo "$out" | grep -E '^OK|^VIOLATION' | head -2 | tr '\n' ' ' | cut -c1-160) inconclusive=$(echo "$out" | grep -c '^INCONCLUSIVE') known=$(echo "$out" | grep -c '^KNOWN')"
done
