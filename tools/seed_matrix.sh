#!/bin/bash
# tools/seed_matrix.sh [seed-dir...] : for every seeded change, run the quick check of its property
# against a scratch worktree of /repo with the change applied (never touches /repo itself).
# Writes seeded/<id>/detection.txt and prints one line per seed.
cd /verif
export GOFLAGS=-mod=mod GOPROXY=off GOSUMDB=off GOTOOLCHAIN=local
seeds="$@"; [ -z "$seeds" ] && seeds=$(ls -d seeded/*/)
for d in $seeds; do
  d=${d%/}; name=$(basename $d)
  prop=$(python3 -c "import json;print(json.load(open('$d/meta.json'))['property'])")
  checks="${CHECKS:-$prop}"
  wt=$(mktemp -d /tmp/seedrun-XXXX); rmdir $wt
  git -C /repo worktree add --detach $wt HEAD >/dev/null 2>&1
  if ! git -C $wt apply /verif/$d/patch.diff 2>/dev/null; then echo "$name: PATCH DOES NOT APPLY"; git -C /repo worktree remove --force $wt; continue; fi
  : > $d/detection.txt.new
  for c in $checks; do
    out=$(bin/symgo check -spec checks/$c.json -tier quick -repo $wt -evidence "" 2>&1)
    rc=$?
    labels=$(echo "$out" | grep 'counterexample:' | sed 's/.*entry=\([A-Za-z0-9_]*\).*label="\([^"]*\)".*/\1: \2/' | sort -u | head -4 | tr '\n' ';')
    echo "check=$c exit=$rc $labels" >> $d/detection.txt.new
    echo "$name check=$c exit=$rc $(echo "$labels" | cut -c1-200)"
  done
  mv $d/detection.txt.new $d/detection.txt   # only a finished run replaces the record
  git -C /repo worktree remove --force $wt
done
