#!/bin/bash
# tools/try_seed.sh <patch.diff> <check id>... : apply a seeded change to /repo, run the quick checks, undo it.
set -u
patch="$1"; shift
cd /repo || exit 2
if [ -n "$(git status --porcelain)" ]; then echo "/repo not clean"; exit 2; fi
git apply "$patch" || { echo "patch does not apply"; exit 2; }
trap 'git -C /repo checkout -- . ; git -C /repo clean -fdq' EXIT
cd /verif
tier="${TIER:-quick}"
for id in "$@"; do
  echo "=== $id ($tier) with $(basename $(dirname $patch))"
  ./check "$id" --tier "$tier" 2>&1 | grep -E 'VIOLATION|KNOWN|^OK|INCONCLUSIVE|counterexample' | head -12
done
