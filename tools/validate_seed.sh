#!/bin/bash
# tools/validate_seed.sh <seed-dir> : confirm a candidate seeded change in a scratch worktree:
# applies, builds, existing suite passes with it, demonstration fails with it and passes without it.
set -u
export GOFLAGS=-mod=mod GOPROXY=off GOSUMDB=off GOTOOLCHAIN=local
d="$1"; id=$(basename "$d")
wt=$(mktemp -d /tmp/seedval-XXXX); rmdir "$wt"
git -C /repo worktree add --detach "$wt" HEAD >/dev/null 2>&1 || { echo "$id: worktree failed"; exit 2; }
trap 'git -C /repo worktree remove --force "$wt" >/dev/null 2>&1' EXIT
cd "$wt"
res="$id:"
git apply --check "$d/patch.diff" 2>/dev/null && res="$res applies" || { echo "$res PATCH-DOES-NOT-APPLY"; exit 1; }
# demo placement
demo=$(ls "$d" | grep '_test.go$' | head -1)
dest=$(grep -oE '[A-Za-z0-9_./-]*zz_seed_demo_test.go' "$d/demo_path.txt" | grep -v '^/' | grep / | head -1)
[ -z "$dest" ] && dest="$demo"
pkgdir=$(dirname "$dest")
run=$(grep -oE "\-run '?[A-Za-z0-9_|^$()]+'?" "$d/demo_path.txt" | head -1 | sed "s/-run //; s/'//g")
[ -z "$run" ] && run=TestSeed
cp "$d/$demo" "$dest"
if go test -count=1 -run "$run" "./$pkgdir" >/tmp/seedval-$id-clean.log 2>&1; then res="$res demo-passes-clean"; else res="$res DEMO-FAILS-ON-CLEAN"; fi
rm -f "$dest"
git apply "$d/patch.diff"
go build ./... >/dev/null 2>&1 && res="$res builds" || res="$res BUILD-FAILS"
if go test -vet=off -count=1 ./... >/tmp/seedval-$id-suite.log 2>&1; then res="$res suite-passes"; else res="$res SUITE-FAILS"; fi
cp "$d/$demo" "$dest"
if go test -count=1 -run "$run" "./$pkgdir" >/tmp/seedval-$id-seeded.log 2>&1; then res="$res DEMO-PASSES-WITH-CHANGE"; else res="$res demo-fails-seeded"; fi
echo "$res (run=$run dest=$dest)"
